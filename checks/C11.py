"""C11 - adaptive thresholds stay inside their configured envelope (warm-up and memory-adaptive flow rules).

S1  TLC checks WarmUp.tla (exact rational transcription of the warm-up calculator, one aligned second per action,
    saturating counters => histories of any length): on the configurations of class Healthy the effective threshold is
    defined, in [0, T], admitted <= T, cold after idle, warm after sustained demand, no starvation.  A second run over
    ALL configurations never fails but prints a LEAD for every reachable state in which the transcription leaves the
    envelope (the open defect classes: maxToken = warningToken, warningToken = 0, threshold below the cold factor;
    the repaired ones - starvation, token count resting on the warning line - no longer appear).  MemAdaptive.tla: end points, range, monotone, finite on a grid.
S2  scenarios: the LEAD histories, TLC random simulation of WarmUp (demand 0 / 1 / saturating per second), seeded random
    warm-up histories (phases of saturating / idle / steady single-token / random demand, and free-running request times
    and batches) and seeded random memory-adaptive rules with probes on and around the water marks.
S3  harness/cmd/c11 replays them on the real code through api.Entry under the virtual clock.
S4  WarmUp_Trace.tla / MemAdaptive_Trace.tla (TLC) judge every recorded decision against the ENVELOPE of the statement
    (verdict) and compare it with the rational transcription (conformance: DRIFT lines, never a verdict).
The control behaviour is a parameter of the rule in every stage: Reject (the threshold caps the tokens of the window) and
Throttling (the threshold spaces the admissions: saturating demand paced on the virtual clock, judged by the same envelope
read as pacing).  S1 also runs the spec-level mutant "a throttling rule reads an empty statistic": WarmAfterSat must fail.
The rule parameters are STATE: rules are replaced under traffic (WarmUp!Reload, MemAdaptive!Reload, driver op reload, trace
event reload); the clauses are restated for the rule in force and E5 / ProgressOK bounds what a reloaded rule may admit by
the warm-up progress the history of the resource justifies (WarmUpOps, "a rule REPLACED under traffic").  Spec-level mutant
"the new calculator inherits the raw token count": ProgressOK must fail.
This is a transcription check with tolerances, not a proof about float arithmetic.
"""
import json, os, sys
import vlib
from vlib import main, write_ndjson, read_ndjson, MachineryError

K_DEGENERATE = 'C11/warmup-degenerate-maxToken-equals-warningToken/unlimited'
K_STARVED = 'C11/warmup-cold-rate-below-one-token/starved-forever'
K_NEVERCOLD = 'C11/warmup-warningToken-zero/never-cold'
K_STUCK = 'C11/warmup-tokens-rest-on-warning-line/not-cold-after-idle'
K_STARVED_EDGE = 'C11/warmup-cold-rate-exactly-one-token/float-rounds-below-one/starved-forever'
K_LONGWIN = 'C11/warmup-stat-interval-above-one-second/never-warms-up'
K_NOTRECOOLED = 'C11/warmup-threshold-below-coldFactor/never-refilled-above-warning-line/not-cold-after-idle'


# ----------------------------------------------------------------------------- the classes of WarmUpOps, in Python
def wu_params(cfg):
    tn, td, p, c = cfg['tn'], cfg['td'], cfg['p'], cfg['c']
    cold = 3 if c <= 1 else c
    W = (p * tn) // (td * (cold - 1))
    M = W + (2 * p * tn) // (td * (cold + 1))
    return tn, td, p, cold, W, M


def wu_class(cfg):
    """class of WarmUpOps; a statistic window longer than a second makes an otherwise healthy rule `long-window'"""
    base = wu_base(cfg)
    return 'long-window' if base == 'healthy' and cfg.get('si', 1000) > 1000 else base


def wu_base(cfg):
    tn, td, p, cold, W, M = wu_params(cfg)
    if tn * (M - W) == 0:
        return 'degenerate'
    if W > 0 and tn >= td and tn < td * cold:
        return 'cold-below-one'
    if W == 0:
        return 'never-cold'
    return 'healthy'


def classify(c, scn, exp):
    """known-finding key of a confirmed envelope violation (from the scenario parameters + the broken clause), or None"""
    cfg = scn[0]
    if cfg.get('kind') != 'warmup':
        return None
    try:
        e = json.loads(exp.split('  OBSERVED:')[0])
    except Exception:
        return None
    why = e.get('why', '')[:2]
    if 'rule' in e:
        # a mismatch after a reload: the class of the rule in force; E5 (warmer than the history justifies) is E2's clause there
        cfg = dict(tn=e['rule'][0], td=e['rule'][1], p=e['rule'][2], c=e['rule'][3])
        why = 'E2' if why == 'E5' else why
    cls = wu_base(cfg)
    W = wu_params(cfg)[4]
    if scn[0].get('si', 1000) > 1000 and why == 'E3' and cls in ('healthy', 'cold-below-one', 'never-cold'):
        # a statistic window longer than a second: the previous QPS (per second) of the cold rate stays below uint32(T)/coldFactor,
        # the bucket is refilled faster than it is drained and the rule never warms up
        return K_LONGWIN
    if cls == 'degenerate' and why in ('E1', 'E2'):
        return K_DEGENERATE
    if cls == 'cold-below-one' and why in ('E3', 'E4'):
        return K_STARVED        # (repaired by 7ba6ba0: listed as fixed, so a return of it is a VIOLATION)
    if cls == 'cold-below-one' and why == 'E2':
        # 1 <= T < coldFactor: uint32(T)/coldFactor = 0, so at or above the warning line the bucket is never refilled and the
        # rule is not cold again after an idle period (visible since 7ba6ba0 lets such a rule serve requests at all)
        return K_NOTRECOOLED
    if cls == 'never-cold' and why == 'E2':
        return K_NEVERCOLD
    al = e.get('model_allowed') or [0, 0]
    if cls == 'healthy' and why in ('E3', 'E4') and cfg['tn'] == cfg['td'] * wu_params(cfg)[3] and e.get('window') == 0 \
            and al[1] != 0 and al[0] == al[1]:
        # T = coldFactor: the cold rate is exactly one token in exact arithmetic (the transcription admits it) and the float
        # computation rounds it below one for some periods (e.g. T 10, cold 10, period 4): nothing is ever admitted
        return K_STARVED_EDGE
    if cls == 'healthy' and why == 'E2' and e.get('model_tokens') == W and al[1] != 0 and al[0] * cfg['td'] == cfg['tn'] * al[1]:
        return K_STUCK      # cold by the clock, yet the token count rests exactly on the warning line and the full threshold applies
    return None


# ----------------------------------------------------------------------------- TLC configurations
def wu_cfg(configs, scope, excuse, inv, emit=False, mut='none', targets='NoTargets', maxreload=0):
    return """SPECIFICATION Spec
CONSTANTS
  Configs <- %s
  Mut = "%s"
  Targets <- %s
  MaxReload = %d
  LCMP = 10
  SAT = SAT
  InScope <- %s
  ExcuseStuck = %s
VIEW view
%s
CHECK_DEADLOCK FALSE
%s""" % (configs, mut, targets, maxreload, scope, 'TRUE' if excuse else 'FALSE', ('INVARIANTS ' + inv) if inv else '',
         'ACTION_CONSTRAINT Emit\n' if emit else '')


ENVELOPE_INV = 'TypeOK AllowedDefined AllowedInRange AdmittedLeT ColdAfterIdle ColdAfterIdleObs WarmAfterSat WarmAfterSatThr NoStarvation ProgressOK'


def mem_cfg(maxthr, maxmem):
    return """SPECIFICATION Spec
CONSTANTS
  Rules <- MCRules
  Mems <- MCMems
  MaxThr = %d
  MaxMem = %d
INVARIANTS Finite EndPoints InRange Monotone ObservableOK
CHECK_DEADLOCK FALSE
""" % (maxthr, maxmem)


# ----------------------------------------------------------------------------- scenarios
QUEUES = [1, 1, 5, 20, 50, 300, 2000, 0]     # MaxQueueingTimeMs of throttling rules (0: saturation cannot be established, E1/E2/E4 only)


def from_secs(hist, tr, rng, off=None, q=None):
    """TLC history [new, sec n, sec n, ...] -> driver scenario: the demand of a second arrives at its start.
    Throttling rule (cb = 1): n > 1 (or pace=True) is saturating demand DURING the whole second (op pace: one request per
    millisecond, queueing as the rule allows), burst=True n requests at the start of the second."""
    cfg = hist[0]
    if cfg.get('cb'):
        off = rng.choice([0, 0, 1, 7]) if off is None else off
        q = rng.choice(QUEUES) if q is None else q
        out = [dict(op='new', tr=tr, kind='warmup', t=1000 + off, tn=cfg['tn'], td=cfg['td'], p=cfg['p'], c=cfg['c'], cb=1, q=q)]
        k = -1
        for o in hist[1:]:
            if o.get('op') == 'reload':
                # the rule is replaced at the start of the next second (before its demand)
                out.append(dict(op='at', t=1000 + off + 1000 * (k + 1)))
                out.append(reload_op(o, rng, q))
                continue
            k += 1
            start = 1000 + off + 1000 * k
            if k:
                out.append(dict(op='at', t=start))
            if o['n'] > 0 and o.get('burst'):
                out.append(dict(op='burst', n=o['n']))
            elif o['n'] > 1 or o.get('pace'):
                out.append(dict(op='pace', until=start + 1000, step=1))
            elif o['n'] == 1:
                out.append(dict(op='burst', n=1))
        return out
    si = cfg.get('si', 1000) or 1000
    off = rng.choice([0, 1, 7, 250, 499] if si == 1000 else [0, 0, 1, 7]) if off is None else off
    out = [dict(op='new', tr=tr, kind='warmup', t=1000 + off, tn=cfg['tn'], td=cfg['td'], p=cfg['p'], c=cfg['c'])]
    if si != 1000:
        out[0]['si'] = si
    # a statistic window shorter than a second (it divides 1000): the demand of a second arrives at the start of each window
    k = 1000 // si if si < 1000 and 1000 % si == 0 else 1
    first = True
    pending = []
    for o in hist[1:]:
        if o.get('op') == 'reload':
            pending.append(reload_op(o, rng, 0))         # the rule is replaced at the start of the next second (before its demand)
            continue
        if not first:
            out.append(dict(op='tick', d=1000 - (k - 1) * si))
        first = False
        out += pending
        pending = []
        for w in range(k):
            if w:
                out.append(dict(op='tick', d=si))
            if o['n'] > 0:
                out.append(dict(op='burst', n=o['n']))
    return out + pending


def reload_op(o, rng, q):
    r = dict(op='reload', tn=o['tn'], td=o['td'], p=o['p'], c=o['c'])
    if o.get('cb'):
        r.update(cb=1, q=q)
    if (rng.random() if rng else (o['tn'] % 2) * 0.9) < 0.5:
        r['via'] = 'res'           # flow.LoadRulesOfResource instead of flow.LoadRules
    return r


INTERVALS = [100, 250, 500, 500, 500, 1500, 2000, 2000, 2500, 5000, 10000]      # StatIntervalInMs other than the default
THRESHOLDS = [(0, 1), (1, 4), (1, 2), (3, 4), (1, 1), (3, 2), (2, 1), (5, 2), (3, 1), (4, 1), (5, 1), (6, 1), (7, 1), (8, 1),
              (10, 1), (12, 1), (15, 2), (16, 1)]
PERIODS = [1, 1, 2, 2, 3, 4, 5, 6]
COLDS = [0, 2, 3, 3, 4, 5, 10]


def random_warmup(c, n, first_tr):
    rng = c.rng
    scns = []
    for i in range(n):
        tr = first_tr + i
        tn, td = rng.choice(THRESHOLDS)
        p, cf = rng.choice(PERIODS), rng.choice(COLDS)
        T = tn // td
        thr = rng.random() < 0.3          # the same rule enforced by the throttling checker
        x = rng.random()
        # the statistic interval of the rule (reject rules): sub-second, non-whole seconds, several seconds
        si = rng.choice(INTERVALS) if not thr and rng.random() < 0.3 else 1000
        if thr and x >= 0.75:
            # free-running single-token requests (the pacing clauses E1, E2, E4; saturation is never established)
            s = [dict(op='new', tr=tr, kind='warmup', t=rng.choice([1, 500, 999, 1000, 1234]), tn=tn, td=td, p=p, c=cf, cb=1,
                      q=rng.choice(QUEUES))]
            for _ in range(rng.randint(20, 120)):
                if rng.random() < 0.6:
                    s.append(dict(op='req', b=1))
                else:
                    s.append(dict(op='tick', d=rng.choice([0, 1, 100, 250, 499, 500, 501, 1000, 1000, 2000, rng.randint(0, 1500),
                                                           1000 * (2 * p + 3)])))
            scns.append(s)
        elif x < 0.75:
            # phases, every request in the first half of its second
            hist = [dict(tn=tn, td=td, p=p, c=cf, cb=1 if thr else 0, si=si)]
            for _ in range(rng.randint(2, 4)):
                kind = rng.choice(['sat', 'sat', 'idle', 'steady', 'rand'])
                k = rng.choice([1, 2, p + 1, 2 * p + 3 + (si + 999) // 1000 * (si > 1000), 2 * p + 6])
                for _ in range(k):
                    nreq = dict(sat=T + 2, idle=0, steady=1, rand=rng.randint(0, T + 2))[kind]
                    hist.append(dict(n=nreq, pace=True) if kind == 'sat' else dict(n=nreq, burst=True))
            scns.append(from_secs(hist[:60], tr, rng))
        else:
            # free-running: any time, any batch
            s = [dict(op='new', tr=tr, kind='warmup', t=rng.choice([1, 500, 999, 1000, 1234]), tn=tn, td=td, p=p, c=cf)]
            if si != 1000:
                s[0]['si'] = si
            for _ in range(rng.randint(20, 120)):
                x = rng.random()
                if x < 0.6:
                    s.append(dict(op='req', b=rng.choice([1, 1, 1, 1, 2, 3])))
                else:
                    s.append(dict(op='tick', d=rng.choice([0, 1, 100, 250, 499, 500, 501, 1000, 1000, 2000, rng.randint(0, 1500),
                                                           1000 * (2 * p + 3)])))
            scns.append(s)
    return scns


def fixed_warmup(first_tr):
    """always-present scenarios: one or two members of every known defect class (so that the verdict does not depend on the seed)
    and the decimal threshold 0.1 quoted in the design notes; steady single-token or saturating demand"""
    out = []
    for tn, td, p, cf, n in [(1, 1, 1, 3, 3), (1, 10, 1, 3, 2), (0, 1, 2, 3, 2), (2, 1, 5, 3, 1), (6, 1, 1, 10, 8), (10, 1, 4, 10, 1), (6, 1, 3, 6, 1),
                             (10, 1, 2, 3, 12), (3, 1, 5, 2, 5)]:
        hist = [dict(tn=tn, td=td, p=p, c=cf)] + [dict(n=n)] * (2 * p + 8)
        out.append(from_secs(hist, first_tr + len(out), None, off=7))
    # other statistic intervals: saturating demand from the load on for longer than the warm-up, an idle period, demand again
    # (cold start, warm-up, cold again); sub-second windows, non-whole and whole seconds (the latter: known finding)
    for tn, td, p, cf, si in [(12, 1, 2, 3, 500), (15, 1, 3, 3, 500), (10, 1, 2, 2, 250), (16, 1, 1, 4, 100), (9, 1, 2, 0, 500), (12, 1, 2, 3, 2000),
                              (10, 1, 1, 3, 5000), (12, 1, 2, 3, 1500), (15, 2, 2, 3, 500)]:
        n = tn // td + 2
        m = (si + 999) // 1000 if si > 1000 else 0
        hist = [dict(tn=tn, td=td, p=p, c=cf, si=si)] + [dict(n=n)] * (2 * p + 6 + m) + [dict(n=0)] * (2 * p + 3 + m) + [dict(n=n)] * 3
        out.append(from_secs(hist, first_tr + len(out), None, off=0))
    # throttling rules (healthy configurations) under saturating demand for longer than the warm-up: whole and fractional
    # thresholds, default cold factor, queueing from one polling step to "every request waits"
    for tn, td, p, cf, q, off in [(10, 1, 2, 3, 20, 0), (4, 1, 1, 2, 1, 7), (5, 1, 3, 0, 2000, 0), (16, 1, 4, 4, 5, 1), (5, 2, 2, 2, 50, 0),
                                  (3, 1, 2, 3, 10, 7), (10, 1, 5, 3, 300, 0)]:
        hist = [dict(tn=tn, td=td, p=p, c=cf, cb=1)] + [dict(n=2, pace=True)] * (2 * p + 8)
        out.append(from_secs(hist, first_tr + len(out), None, off=off, q=q))
    return out


# ----------------------------------------------------------------------------- rules replaced under traffic
def sat_n(cfg):
    return cfg['tn'] // cfg['td'] + 2


def healthy(cfg):
    return wu_class(cfg) == 'healthy' and cfg['tn'] >= cfg['td']


def changed_cfg(rng, cfg):
    """a healthy rule that differs from cfg in the threshold, the period, the cold factor or all of them"""
    for _ in range(200):
        new = dict(cfg)
        what = rng.choice(['t', 't', 't', 'p', 'p', 'c', 'all'])
        if what in ('t', 'all'):
            new['tn'], new['td'] = rng.choice(THRESHOLDS)
        if what in ('p', 'all'):
            new['p'] = rng.choice(PERIODS)
        if what in ('c', 'all'):
            new['c'] = rng.choice(COLDS)
        if healthy(new) and any(new[k] != cfg[k] for k in ('tn', 'td', 'p', 'c')):
            return new
    return None


def fixed_reload(first_tr):
    """directed: (a) a cold rule gets a bigger threshold, (b) a warm rule a smaller one, (c) a longer period, (d) a bigger cold factor,
    (e) an identical rule in the middle of the warm-up, (f) a new rule after an idle period, (g) a bigger threshold and a shorter
    period after one cold second, (h) two raises in a row, (i) the raise of the seeded change's demonstration scaled to the model's
    thresholds; saturating demand before and after, both control behaviours.  Returns (scenarios, trace numbers of the family
    "cold rule gets a bigger threshold")"""
    fam = [('a', (4, 1, 5, 3), 1, [((16, 1, 5, 3), None)]),
           ('b', (16, 1, 2, 2), 8, [((4, 1, 2, 2), None)]),
           ('c', (10, 1, 1, 3), 2, [((10, 1, 6, 3), None)]),
           ('d', (10, 1, 2, 2), 2, [((10, 1, 2, 5), None)]),
           ('e', (10, 1, 4, 3), 3, [((10, 1, 4, 3), None)]),
           ('f', (10, 1, 2, 3), 8, [((12, 1, 2, 3), 'idle')]),
           ('g', (6, 1, 6, 3), 1, [((16, 1, 1, 3), None)]),
           ('h', (5, 1, 3, 0), 2, [((10, 1, 3, 0), None), ((16, 1, 3, 0), None)]),
           ('a', (2, 1, 5, 2), 1, [((16, 1, 5, 2), None)]),
           ('a', (3, 1, 6, 3), 1, [((15, 2, 6, 3), None)]),
           ('a', (5, 1, 6, 3), 2, [((16, 1, 6, 3), None)]),
           ('a', (4, 1, 4, 0), 1, [((12, 1, 4, 0), None)])]
    out, cold_raise = [], set()
    for cb, q in ((0, 0), (1, 20), (1, 2000)):
        for name, old, pre, steps in fam:
            def mk(t):
                return dict(tn=t[0], td=t[1], p=t[2], c=t[3], cb=cb)
            cfg = mk(old)
            hist = [cfg] + [dict(n=sat_n(cfg), pace=True)] * pre
            for new, how in steps:
                if how == 'idle':
                    hist += [dict(n=0)] * (2 * cfg['p'] + 3)
                cfg = mk(new)
                hist.append(dict(op='reload', **cfg))
                hist += [dict(n=sat_n(cfg), pace=True)] * (2 if (new, how) != steps[-1] else 2 * cfg['p'] + 6)
            tr = first_tr + len(out)
            out.append(from_secs(hist, tr, None, off=7 if len(out) % 2 else 0, q=q))
            if name == 'a' and cb == 0:
                cold_raise.add(tr)
    return out, cold_raise


def random_reload(c, n, first_tr):
    rng = c.rng
    scns = []
    while len(scns) < n:
        tr = first_tr + len(scns)
        tn, td = rng.choice(THRESHOLDS)
        cfg = dict(tn=tn, td=td, p=rng.choice(PERIODS), c=rng.choice(COLDS), cb=1 if rng.random() < 0.3 else 0)
        if not healthy(cfg):
            continue
        q = rng.choice(QUEUES) if cfg['cb'] else 0

        def phase(cfg, hist, kinds, lens):
            kind = rng.choice(kinds)
            for _ in range(rng.choice(lens)):
                T = cfg['tn'] // cfg['td']
                nreq = dict(sat=T + 2, idle=0, steady=1, rand=rng.randint(0, T + 2))[kind]
                hist.append(dict(n=nreq, pace=True) if kind == 'sat' else dict(n=nreq, burst=True))
        if cfg['cb'] == 0 and rng.random() < 0.25:
            # free-running: the reload falls anywhere (middle of a second, of a window, between two requests of one instant)
            s = [dict(op='new', tr=tr, kind='warmup', t=rng.choice([1, 500, 999, 1000, 1234]), tn=tn, td=td, p=cfg['p'], c=cfg['c'])]
            nre = rng.randint(1, 3)
            total = rng.randint(30, 120)
            at = sorted(rng.sample(range(total), nre))
            for i in range(total):
                if i in at:
                    new = cfg if rng.random() < 0.15 else changed_cfg(rng, cfg)
                    if new:
                        cfg = dict(new, cb=0)
                        s.append(reload_op(cfg, rng, 0))
                if rng.random() < 0.6:
                    s.append(dict(op='req', b=rng.choice([1, 1, 1, 1, 2, 3])))
                else:
                    s.append(dict(op='tick', d=rng.choice([0, 1, 100, 250, 499, 500, 501, 1000, 1000, 2000, rng.randint(0, 1500),
                                                           1000 * (2 * cfg['p'] + 3)])))
            scns.append(s)
            continue
        hist = [cfg]
        p = cfg['p']
        phase(cfg, hist, ['sat', 'sat', 'sat', 'steady', 'rand'], [1, 2, 3, p, p + 1, 2 * p + 3])
        for _ in range(rng.randint(1, 2)):
            if rng.random() < 0.2:
                phase(cfg, hist, ['idle'], [1, 2, 2 * p + 3])
            new = cfg if rng.random() < 0.15 else changed_cfg(rng, cfg)
            if not new:
                continue
            cfg = dict(new, cb=cfg['cb'])
            p = cfg['p']
            hist.append(dict(op='reload', **cfg))
            phase(cfg, hist, ['sat', 'sat', 'sat', 'steady', 'rand', 'idle'], [1, 2, p + 1, 2 * p + 4])
        phase(cfg, hist, ['sat'], [2, 2 * p + 4])
        scns.append(from_secs(hist[:70], tr, rng, q=q))
    return scns


def random_mem(c, n, first_tr):
    rng = c.rng
    scns = []
    for i in range(n):
        tr = first_tr + i
        low = rng.choice([2, 3, 5, 8, 10, 17, 30])
        high = rng.randint(1, low - 1)
        lw = rng.choice([1, 2, 100, 1000, 4096, 1 << 20])
        hw = lw + rng.choice([1, 2, 3, 7, 10, 100, 1000, 1 << 20])
        s = [dict(op='new', tr=tr, kind='mem', low=low, high=high, lw=lw, hw=hw)]
        if rng.random() < 0.3:
            # the same rule enforced by the throttling checker: a probe is one second of saturating demand (paced admissions)
            s[0].update(cb=1, q=rng.choice([1, 5, 50, 500]))
        elif rng.random() < 0.3:
            s[0]['si'] = rng.choice([100, 500, 500, 1500, 2000, 5000])     # another statistic interval (the probe waits for an empty window)
        cand = [-1, 0, lw - 1, lw, lw + 1, hw - 1, hw, hw + 1, 2 * hw, (lw + hw) // 2] + [rng.randint(lw, hw) for _ in range(6)]
        nprobe = rng.randint(5, 12)
        reload_at = set(rng.sample(range(1, nprobe), rng.randint(1, 2))) if rng.random() < 0.35 else set()
        for k in range(nprobe):
            if k in reload_at:
                # the rule is replaced between two probes: other thresholds, other water marks, or the identical rule
                x = rng.random()
                if x < 0.4:
                    low = rng.choice([2, 3, 5, 8, 10, 17, 30])
                    high = rng.randint(1, low - 1)
                elif x < 0.8:
                    lw = rng.choice([1, 2, 100, 1000, 4096, 1 << 20])
                    hw = lw + rng.choice([1, 2, 3, 7, 10, 100, 1000, 1 << 20])
                r = dict(op='reload', low=low, high=high, lw=lw, hw=hw)
                if s[0].get('cb'):
                    r.update(cb=1, q=s[0]['q'])
                if rng.random() < 0.5:
                    r['via'] = 'res'
                s.append(r)
                cand += [lw - 1, lw, lw + 1, hw - 1, hw, hw + 1, (lw + hw) // 2] + [rng.randint(lw, hw) for _ in range(4)]
            s.append(dict(op='probe', mem=rng.choice(cand), n=low + 2))
        scns.append(s)
    return scns


def single_field_reloads(c, scns):
    """post-pass over the memory-adaptive scenarios (own random stream: the scenarios above stay what they were): in every
    second scenario one reload is inserted whose rule differs from the rule in force in exactly ONE field (high water mark,
    low water mark or high-memory threshold) - a reload must not take such a rule for unchanged - followed by probes at both
    water marks of the new rule and half-way between them"""
    import random
    rng = random.Random(c.seed * 7919 + 11)
    for s in scns:
        if rng.random() < 0.5 or len(s) < 3:
            continue
        at = rng.randint(2, len(s) - 1)
        cur = dict(s[0])
        for o in s[1:at]:
            if o['op'] == 'reload':
                cur.update(low=o['low'], high=o['high'], lw=o['lw'], hw=o['hw'])
        low, high, lw, hw = cur['low'], cur['high'], cur['lw'], cur['hw']
        f = rng.choice(['hw', 'hw', 'hw', 'lw', 'high'])
        if f == 'hw':
            hw = rng.choice([h for h in (lw + 1, lw + 2, lw + 7, lw + 100, (lw + hw) // 2, 2 * hw, hw + 1000) if h > lw and h != hw])
        elif f == 'lw' and hw - lw >= 2:
            lw = rng.choice([v for v in (lw + 1, (lw + hw) // 2, hw - 1) if v != lw])
        elif high + 1 < low:
            high += 1
        elif high > 1:
            high -= 1
        else:
            hw += 1
        r = dict(op='reload', low=low, high=high, lw=lw, hw=hw)
        if s[0].get('cb'):
            r.update(cb=1, q=s[0]['q'])
        if rng.random() < 0.5:
            r['via'] = 'res'
        ins = [r] + [dict(op='probe', mem=m, n=low + 2) for m in (hw, lw, (lw + hw) // 2, hw + 1)]
        s[at:at] = ins
    return scns


# ----------------------------------------------------------------------------- S3 + S4
def run_and_validate(c, drv, scns, tag, module):
    sp = os.path.join(c.scratch, tag + '.scn.ndjson')
    tp = os.path.join(c.scratch, tag + '.trace.ndjson')
    write_ndjson(sp, [o for s in scns for o in s])
    c.run([drv, sp, tp], timeout=600)
    nlines = sum(1 for _ in open(tp))
    mism, consumed, r = c.validate(module, tp, nlines)
    if consumed != nlines:
        raise MachineryError('%s: trace validation consumed %d of %d lines (malformed trace?)\n%s' % (tag, consumed, nlines, r.out[-1500:]))
    drift = []
    for l in r.out.splitlines():
        if l.startswith('"DRIFT '):
            _, a, b, rest = json.loads(l).split(' ', 3)
            drift.append((int(a), int(b), rest))
    if not tag.startswith('confirm') and not tag.startswith('selftest'):
        c.cov['traces_validated_against_impl'] += len(scns)
        c.cov['evaluations'] += nlines
        c.cov['conformance_mismatches'] += len(drift)
        c.log('S3/S4 %s: %d scenarios, %d events validated in %.0fs: %d outside the envelope, %d drifting from the transcription' % (
            tag, len(scns), nlines, r.wall, len(mism), len(drift)))
        for tr_, ln, rest in drift[:3]:
            c.log('   DRIFT trace %d line %d: %s' % (tr_, ln, rest[:300]))
    if mism:
        lines = open(tp).read().splitlines()
        mism = [(tr_, ln, exp + '  OBSERVED: ' + lines[ln - 1][:300]) for tr_, ln, exp in mism]
    return mism, drift, tp


def split_traces(path):
    out, cur = [], None
    for l in open(path):
        e = json.loads(l)
        if e['op'] == 'new':
            cur = [e]
            out.append(cur)
        else:
            cur.append(e)
    return out


def binding_selftest_warmup(c, tp):
    """(a) envelope: turn one rejection into an admission where the window already holds floor(T) tokens (must be rejected);
       (b) transcription: flip one arbitrary decision (must be reported as DRIFT)"""
    traces = split_traces(tp)
    env, dr = [], []
    for t in traces:
        cfg = t[0]
        if wu_class(cfg) != 'healthy' or cfg.get('cb') or len(env) >= 25 and len(dr) >= 25:
            continue
        T = cfg['tn'] // cfg['td']
        now, cnt, sec = cfg['t'], 0, None
        pick = None
        reqs = [i for i, e in enumerate(t) if e['op'] == 'req']
        for i, e in enumerate(t):
            if e['op'] == 'tick':
                now = e['t']
            elif e['op'] == 'req':
                s = now // 1000
                if s != sec:
                    sec, cnt = s, 0
                if now % 1000 >= 500:
                    pick = None
                    break                       # only traces whose requests all arrive in the first half of a second
                if e['ok']:
                    cnt += e['b']
                elif cnt == T and e['b'] == 1 and pick is None and T >= 1:
                    pick = i
        if pick is not None and len(env) < 25:
            t2 = [dict(e) for e in t]
            t2[pick]['ok'] = True
            env.append(t2)
        elif reqs and len(dr) < 25:
            t2 = [dict(e) for e in t]
            j = c.rng.choice(reqs)
            t2[j]['ok'] = not t2[j]['ok']
            dr.append(t2)
    for k, t in enumerate(env + dr):
        t[0]['tr'] = k + 1
    cp = os.path.join(c.scratch, 'corrupt-wu.ndjson')
    write_ndjson(cp, [e for t in env + dr for e in t])
    mism, consumed, r = c.validate('WarmUp_Trace', cp, sum(len(t) for t in env + dr))
    drift = {int(json.loads(l).split(' ')[1]) for l in r.out.splitlines() if l.startswith('"DRIFT ')}
    got = {m[0] for m in mism}
    want_env = set(range(1, len(env) + 1))
    want_dr = set(range(len(env) + 1, len(env) + len(dr) + 1))
    # (a flipped decision exactly on the tolerance edge is accepted by design: allow a few)
    if len(env) < 5 or not want_env <= got or len(dr) < 5 or len(want_dr - drift - got) > len(dr) // 4:
        # (deferred: a tree that breaks the property may not produce the good traces the self-test needs; a VIOLATION found by the
        # same run takes precedence over this exit-2 condition)
        c.inconclusive.append('warm-up binding self-test failed: envelope %d corrupted / %d rejected; transcription %d corrupted / %d reported'
                              % (len(env), len(want_env & got), len(dr), len(want_dr & (drift | got))))
        return
    c.cov['binding_selftest_warmup'] = ('%d traces with an admission above the threshold: all rejected by the envelope; %d traces with one '
                                        'flipped decision: %d reported as drift from the transcription' % (len(env), len(dr), len(want_dr & (drift | got))))
    c.log('binding self-test (warm-up): ' + c.cov['binding_selftest_warmup'])


def binding_selftest_throttle(c, tp, scns):
    """pacing clause E3: in traces of healthy throttling rules under saturating demand from the first to the last second (longer
    than the warm-up), delay the last admission that was made to wait by one more spacing 1/T (must be rejected)"""
    allsat = {s[0]['tr'] for s in scns if s[0].get('cb') and s[0].get('q', 0) > 0 and wu_class(s[0]) == 'healthy'
              and s[0]['tn'] >= s[0]['td'] and all(o['op'] in ('new', 'at', 'pace') for o in s)
              and trailing_pace_run(s) >= 2 * s[0]['p'] + 5}
    bad = []
    for t in split_traces(tp):
        if t[0]['tr'] not in allsat or len(bad) >= 25:
            continue
        cand = [i for i, e in enumerate(t) if e['op'] == 'preq' and e['ok'] and e['w'] > 0]
        if not cand:
            continue
        t2 = [dict(e) for e in t]
        t2[cand[-1]]['w'] += 1000000 * t[0]['td'] // t[0]['tn'] + 10
        bad.append(t2)
    for k, t in enumerate(bad):
        t[0]['tr'] = k + 1
    cp = os.path.join(c.scratch, 'corrupt-thr.ndjson')
    write_ndjson(cp, [e for t in bad for e in t])
    got = set()
    if bad:
        mism, consumed, r = c.validate('WarmUp_Trace', cp, sum(len(t) for t in bad))
        got = {m[0] for m in mism if '"E3' in m[2]}
    if len(bad) < 4 or got != set(range(1, len(bad) + 1)):
        c.inconclusive.append('throttling binding self-test failed: %d traces with a delayed admission, %d rejected (E3)' % (len(bad), len(got)))
        return
    c.cov['binding_selftest_throttle'] = ('%d traces of throttling warm-up rules under saturating demand with one admission delayed by one more '
                                          'spacing 1/T after the warm-up: all rejected by the pacing clause E3' % len(bad))
    c.log('binding self-test (throttling): ' + c.cov['binding_selftest_throttle'])


def same_as_before(s, k):
    """the reload at position k of scenario s loads the rule that is already in force"""
    cur = s[0]
    for o in s[1:k]:
        if o['op'] == 'reload':
            cur = o
    return all(cur.get(f, 0) == s[k].get(f, 0) for f in ('tn', 'td', 'p', 'c', 'cb', 'q'))


def binding_selftest_reload(c, tp, cold_raise):
    """E5: in the directed traces "a cold reject rule gets a bigger threshold" turn the rejections of the second of the reload into
    admissions up to the NEW threshold (what a raw carry-over of the token count does): must be rejected by E5"""
    bad = []
    for t in split_traces(tp):
        if t[0]['tr'] not in cold_raise:
            continue
        i = [k for k, e in enumerate(t) if e['op'] == 'reload'][0]
        T = t[i]['tn'] // t[i]['td']
        t2 = [dict(e) for e in t]
        cnt = 0
        for e in t2[i + 1:]:
            if e['op'] != 'req':
                break
            if cnt < T:
                e['ok'] = True
                cnt += 1
        bad.append(t2)
    for k, t in enumerate(bad):
        t[0]['tr'] = k + 1
    cp = os.path.join(c.scratch, 'corrupt-reload.ndjson')
    write_ndjson(cp, [e for t in bad for e in t])
    got = set()
    if bad:
        mism, consumed, r = c.validate('WarmUp_Trace', cp, sum(len(t) for t in bad))
        got = {m[0] for m in mism if '"E5' in m[2]}
    if len(bad) < 3 or got != set(range(1, len(bad) + 1)):
        c.inconclusive.append('reload binding self-test failed: %d traces with the full new threshold admitted at once after the reload, '
                              '%d rejected (E5)' % (len(bad), len(got)))
        return
    c.cov['binding_selftest_reload'] = ('%d traces "cold rule reloaded with a bigger threshold" with the full new threshold admitted in the second '
                                        'of the reload: all rejected by E5 (warmer than the history justifies)' % len(bad))
    c.log('binding self-test (reload): ' + c.cov['binding_selftest_reload'])


def binding_selftest_mem(c, tp):
    traces = split_traces(tp)[:40]
    want = set()
    for k, t in enumerate(traces):
        t[0]['tr'] = k + 1
        rule = t[0]
        for e in t[1:]:
            if e['op'] == 'reload':
                rule = e            # (the water marks of the rule in force)
            if e['op'] == 'probe' and (e['mem'] <= rule['lw'] or e['mem'] >= rule['hw']) and e['k'] < e['n']:
                e['k'] += c.rng.choice([-1, 1]) if e['k'] + 1 < e['n'] else -1
                want.add(k + 1)
                break
    cp = os.path.join(c.scratch, 'corrupt-mem.ndjson')
    write_ndjson(cp, [e for t in traces for e in t])
    mism, consumed, r = c.validate('MemAdaptive_Trace', cp, sum(len(t) for t in traces))
    got = {m[0] for m in mism}
    if got != want or len(want) < 10:
        c.inconclusive.append('memory-adaptive binding self-test failed: corrupted %s, rejected %s' % (sorted(want), sorted(got)))
        return
    c.cov['binding_selftest_mem'] = '%d traces with one corrupted admission count at a water mark, all rejected' % len(want)
    c.log('binding self-test (memory-adaptive): ' + c.cov['binding_selftest_mem'])


def confirm_twice(c, drv, rp, module):
    """replay the scenario twice in fresh driver processes; one TLC run judges both recordings"""
    sp = os.path.join(c.scratch, 'confirm.scn.ndjson')
    write_ndjson(sp, read_ndjson(rp))
    recs = []
    for i in (1, 2):
        tp = os.path.join(c.scratch, 'confirm%d.trace.ndjson' % i)
        c.run([drv, sp, tp], timeout=300)
        t = read_ndjson(tp)
        t[0]['tr'] = i
        recs += t
    cp = os.path.join(c.scratch, 'confirm.trace.ndjson')
    write_ndjson(cp, recs)
    mism, consumed, r = c.validate(module, cp, len(recs))
    if consumed != len(recs):
        raise MachineryError('confirmation run: malformed trace')
    return len({m[0] for m in mism})


def handle_mismatches(c, drv, scns, mism, tag, module):
    by_tr = {s[0]['tr']: s for s in scns}
    confirmed = c.cov.setdefault('envelope_violations_by_signature', {})
    for tr, line, exp in mism:
        s = by_tr[tr]
        key = classify(c, s, exp)
        kk = key or 'unclassified'
        confirmed.setdefault(kk, 0)
        if confirmed[kk] >= (2 if key else 8):
            confirmed[kk] += 1          # same signature as traces already confirmed twice
            continue
        rp = c.save_replay('%s-tr%d.ndjson' % (tag, tr), s)
        ok = confirm_twice(c, drv, rp, module)
        if ok < 2:
            c.inconclusive.append('mismatch of %s trace %d did not reproduce (%d/2)' % (tag, tr, ok))
            continue
        confirmed[kk] += 1
        what = '%s: outside the envelope at line %d of trace %d (%s): %s' % (
            'warm-up rule' if module == 'WarmUp_Trace' else 'memory-adaptive rule', line, tr,
            json.dumps({k: v for k, v in s[0].items() if k not in ('op', 'tr', 't')}, sort_keys=True), exp[:500])
        if key and c.is_known(key):
            c.known(key, c.kf[key]['description'])
            os.remove(rp)
        else:
            c.violation(what + (' [signature %s]' % key if key else ''), rp)


def trailing_pace_run(s):
    """consecutive seconds of saturating (paced) demand at the end of a throttling scenario built by from_secs"""
    cur = 0
    paced = False
    for o in s[1:] + [dict(op='at')]:
        if o['op'] == 'at':             # the start of the next second
            cur = cur + 1 if paced else 0
            paced = False
        elif o['op'] == 'pace':
            paced = True
        else:
            cur = 0
    return cur


def max_pace_run(s):
    """longest run of consecutive seconds of saturating (paced) demand in a throttling scenario built by from_secs"""
    best = cur = 0
    paced = False
    for o in s[1:] + [dict(op='at')]:
        if o['op'] == 'at':             # the start of the next second
            cur = cur + 1 if paced else 0
            best = max(best, cur)
            paced = False
        elif o['op'] == 'pace':
            paced = True
    return best


def maximal(hs):
    keys = sorted(json.dumps(x, sort_keys=True)[:-1] for x in hs)
    out = []
    for i, k in enumerate(keys):
        if i + 1 < len(keys) and keys[i + 1].startswith(k) and (keys[i + 1] == k or keys[i + 1][len(k)] == ','):
            continue
        out.append(json.loads(k + ']'))
    return out


def load_private_known(c):
    """VERIF_KNOWN_FINDINGS=<file>: a private copy of known_findings.json (used to try the known-finding path)"""
    p = os.environ.get('VERIF_KNOWN_FINDINGS')
    if p and os.path.exists(p):
        data = json.load(open(p))
        for e in data.get('findings', []):
            if e.get('property') == c.pid and e.get('status', 'open') == 'open':
                c.kf[e['key']] = e


def check(c, tier, replay):
    load_private_known(c)
    drv = c.build('c11')
    if replay:
        s = read_ndjson(replay)
        module = 'MemAdaptive_Trace' if s[0].get('kind') == 'mem' else 'WarmUp_Trace'
        mism, _, _ = run_and_validate(c, drv, [s], 'replay', module)
        if mism:
            key = classify(c, s, mism[0][2])
            if key and c.is_known(key):
                c.known(key, c.kf[key]['description'])
            else:
                c.violation('replayed scenario leaves the envelope: %s' % (mism[0][2][:500]), replay)
        c.cov['states'] = c.cov['transitions'] = 1
        c.sample(s[:8])
        return
    thorough = tier == 'thorough'
    skip_s1 = bool(os.environ.get('VERIF_SKIP_S1'))         # mutant trials only
    # S1 ---------------------------------------------------------------------------------
    if not skip_s1:
        # both control behaviours: every configuration as a Reject rule and as a Throttling rule
        r = c.model_check('WarmUp_MC', cfg_text=wu_cfg('MCConfigsBig2' if thorough else 'MCConfigs2', 'ScopeHealthy', False, ENVELOPE_INV),
                          workers=8, timeout=1500)
        if not r.completed:
            c.inconclusive.append('WarmUp.tla: %s violated on a configuration of class Healthy - the classification of the defect '
                                  'classes is incomplete (new lead)' % r.violated)
        # spec-level mutant: a throttling rule whose calculator reads an empty statistic never drains its tokens - the
        # warm-up clause must fail (the invariant is not vacuous for throttling rules)
        r = c.tlc('WarmUp_MC', cfg_text=wu_cfg('MCConfigsThr', 'ScopeHealthy', False, ENVELOPE_INV, mut='nopstat'), workers=8, timeout=600)
        if r.violated not in ('WarmAfterSat', 'WarmAfterSatThr'):
            c.inconclusive.append('WarmUp.tla mutant "throttling rule reads an empty statistic": expected WarmAfterSat to fail, got %s'
                                  % (r.violated or r.error or 'no error'))
        c.cov['spec_mutant_nopstat'] = 'WarmUp.tla with Mut = "nopstat" on the throttling configurations: %s violated after %d states' % (
            r.violated, r.distinct)
        c.log('S1 mutant (throttling rule reads an empty statistic): %s violated, %d distinct states' % (r.violated, r.distinct))
        # rules replaced under traffic: Reload action (healthy rule -> healthy rule, same control behaviour), up to two reloads
        for cfgs, tg, mr in ([('RLConfigs', 'RLTargets', 1)] if not thorough else [('RLConfigs', 'RLTargets', 2), ('RLConfigsBig', 'RLTargetsBig', 1)]):
            r = c.model_check('WarmUp_MC', cfg_text=wu_cfg(cfgs, 'ScopeHealthy', False, ENVELOPE_INV, targets=tg, maxreload=mr),
                              workers=8, timeout=1500)
            if not r.completed:
                c.inconclusive.append('WarmUp.tla with reloads (%s, %d reload(s)): %s violated' % (cfgs, mr, r.violated))
        # spec-level mutant: the new calculator inherits the raw token count of the old one - the progress bound must fail
        r = c.tlc('WarmUp_MC', cfg_text=wu_cfg('RLConfigs', 'ScopeHealthy', False, ENVELOPE_INV, mut='rawcarry', targets='RLTargets', maxreload=1),
                  workers=8, timeout=600)
        if r.violated != 'ProgressOK':
            c.inconclusive.append('WarmUp.tla mutant "raw token carry-over at a reload": expected ProgressOK to fail, got %s'
                                  % (r.violated or r.error or 'no error'))
        c.cov['spec_mutant_rawcarry'] = 'WarmUp.tla with Mut = "rawcarry" (Reload keeps the raw tokens): %s violated after %d states' % (
            r.violated, r.distinct)
        c.log('S1 mutant (reload keeps the raw token count): %s violated, %d distinct states' % (r.violated, r.distinct))
        r = c.model_check('MemAdaptive_MC', cfg_text=mem_cfg(6 if not thorough else 9, 8 if not thorough else 12), workers=8, timeout=1500)
        if not r.completed:
            c.inconclusive.append('MemAdaptive.tla: %s violated' % r.violated)
    r = c.model_check('WarmUp_MC', cfg_text=wu_cfg('MCConfigsLead', 'ScopeAll', False, 'Lead'), workers=8, timeout=1500)
    if not r.completed:
        raise MachineryError('the lead run must not fail: %s\n%s' % (r.violated or r.error, r.out[-1500:]))
    leads = {}
    for l in r.out.splitlines():
        if l.startswith('"LEAD '):
            d = json.loads(json.loads(l)[5:])
            cfg = d['h'][0]
            cls = wu_class(cfg)
            k = (cls, json.dumps(cfg, sort_keys=True), tuple(d['broken']))
            if k not in leads or len(d['h']) < len(leads[k]):
                leads[k] = d['h']
    by_cls = {}
    for (cls, _, _), hh in leads.items():
        by_cls.setdefault(cls, []).append(hh)
    c.cov['leads'] = {k: len(v) for k, v in by_cls.items()}
    c.log('S1 leads (states in which the transcription leaves the envelope), shortest history per configuration and clause: %s' % c.cov['leads'])
    for cls in ('degenerate', 'cold-below-one', 'never-cold', 'long-window'):
        if not by_cls.get(cls):
            raise MachineryError('lead run produced no history for the class %s (vacuous)' % cls)
    if by_cls.get('healthy'):
        c.inconclusive.append('lead run: a configuration of class Healthy leaves the envelope: %s' % by_cls['healthy'][0][:8])
    c.cov['exhaustive'] = True
    # S2 ---------------------------------------------------------------------------------
    tr = 0
    lead_scns = []
    for cls, hs in sorted(by_cls.items()):
        hs = sorted(hs, key=len)
        keep = hs[:6] + (c.rng.sample(hs[6:], min(len(hs) - 6, 10 if not thorough else 60)) if len(hs) > 6 else [])
        for hh in keep:
            tr += 1
            # one more saturating second at the end makes a wrong (too high) threshold visible as an admission count
            lead_scns.append(from_secs(hh, tr, c.rng, off=7))
    num = 280 if not thorough else 4000          # (half of them throttling rules)
    r = c.tlc('WarmUp_MC', cfg_text=wu_cfg('MCConfigsBig2', 'ScopeAll', False, '', emit=True), workers=1, timeout=900, count=False,
              args=['-simulate', 'num=%d' % num, '-depth', '40', '-seed', str(c.seed)])
    sim = maximal(r.json_prints())
    if len(sim) < num // 4:
        raise MachineryError('TLC simulation produced only %d behaviours\n%s' % (len(sim), r.out[-2000:]))
    sim_scns = []
    for hh in sim:
        tr += 1
        sim_scns.append(from_secs(hh, tr, c.rng))
    nrl = 120 if not thorough else 1500
    r = c.tlc('WarmUp_MC', cfg_text=wu_cfg('RLConfigsBig', 'ScopeAll', False, '', emit=True, targets='RLTargetsBig', maxreload=2), workers=1,
              timeout=900, count=False, args=['-simulate', 'num=%d' % (3 * nrl), '-depth', '40', '-seed', str(c.seed + 1)])
    simrl = [hh for hh in maximal(r.json_prints()) if any(o.get('op') == 'reload' for o in hh)]
    simrl = sorted(simrl, key=lambda hh: json.dumps(hh))
    simrl = c.rng.sample(simrl, min(nrl, len(simrl)))
    if len(simrl) < nrl // 3:
        raise MachineryError('TLC simulation produced only %d behaviours with a reload\n%s' % (len(simrl), r.out[-2000:]))
    fx, cold_raise = fixed_reload(tr + 1)            # (directed first: the reload self-test uses the first chunk)
    rl_scns = list(fx)
    tr += len(fx)
    for hh in simrl:
        tr += 1
        rl_scns.append(from_secs(hh, tr, c.rng))
    nrr = 140 if not thorough else 2500
    rl_scns += random_reload(c, nrr, tr + 1)
    tr += nrr
    c.log('S2: %d lead scenarios, %d TLC-simulated demand histories, %d histories with reloads (%d TLC-simulated, %d directed, %d random)' % (
        len(lead_scns), len(sim_scns), len(rl_scns), len(simrl), len(fx), nrr))
    nrand = 360 if not thorough else 5500          # (30 % throttling rules)
    rand_scns = fixed_warmup(tr + 1)
    tr += len(rand_scns)
    rand_scns += random_warmup(c, nrand, tr + 1)
    tr += nrand
    nmem = 400 if not thorough else 6500           # (30 % throttling rules)
    mem_scns = single_field_reloads(c, random_mem(c, nmem, tr + 1))
    tr += nmem
    # S3 + S4 ----------------------------------------------------------------------------
    seen_lead_keys = set()
    for tag, group, module in (('lead', lead_scns, 'WarmUp_Trace'), ('sim', sim_scns, 'WarmUp_Trace'), ('rand', rand_scns, 'WarmUp_Trace'),
                               ('reload', rl_scns, 'WarmUp_Trace'), ('mem', mem_scns, 'MemAdaptive_Trace')):
        for i in range(0, len(group), 1500):
            part = group[i:i + 1500]
            mism, drift, tp = run_and_validate(c, drv, part, '%s%d' % (tag, i), module)
            if tag == 'lead':
                # every lead must show on the real code, either as an envelope violation or (code no longer follows the
                # transcription the lead was derived from) as drift; anything else means spec and trace spec disagree
                bad = {m[0] for m in mism} | {d[0] for d in drift}
                quiet = [s[0]['tr'] for s in part if s[0]['tr'] not in bad]
                c.cov['leads_reproduced'] = '%d of %d' % (len({m[0] for m in mism}), len(part))
                if quiet:
                    c.inconclusive.append('%d lead(s) neither violate the envelope on the real code nor drift from the transcription '
                                          '(first: trace %d %s)' % (len(quiet), quiet[0], part[[s[0]['tr'] for s in part].index(quiet[0])][0]))
            if tag == 'rand' and i == 0:
                binding_selftest_warmup(c, tp)
                binding_selftest_throttle(c, tp, part)
            if tag == 'reload' and i == 0:
                binding_selftest_reload(c, tp, cold_raise)
            if tag == 'mem' and i == 0:
                binding_selftest_mem(c, tp)
            handle_mismatches(c, drv, part, mism, tag, module)
    allwu = lead_scns + sim_scns + rand_scns + rl_scns
    def nontrivial(s):
        if s[0]['kind'] == 'mem':
            return sum(1 for o in s if o['op'] == 'probe' and s[0]['lw'] < o['mem'] < s[0]['hw']) >= 2
        if s[0]['kind'] == 'warmup' and any(o['op'] == 'reload' for o in s):
            # a reload under traffic: requests before and after it
            i = [k for k, o in enumerate(s) if o['op'] == 'reload'][0]
            return any(o['op'] in ('burst', 'req', 'pace') for o in s[:i]) and any(o['op'] in ('burst', 'req', 'pace') for o in s[i:])
        secs = sum(1 for o in s if o['op'] in ('tick', 'at'))
        return secs >= s[0]['p'] + 2 and any(o['op'] in ('burst', 'req', 'pace') for o in s)
    c.cov['distinct_nontrivial'] = len({json.dumps(s[1:] + [{k: v for k, v in s[0].items() if k != 'tr'}], sort_keys=True)
                                        for s in allwu + mem_scns if nontrivial(s)})
    c.cov['rule'] = ('scenarios = TLC leads (%d) + TLC random simulation of WarmUp (%d) + seeded random warm-up histories (%d) + seeded random '
                     'memory-adaptive rules with probes (%d); non-trivial = distinct scenario that (warm-up) issues requests and spans more '
                     'than the warm-up period + 2 s of virtual time, or (memory-adaptive) probes at least two readings strictly between the '
                     'water marks' % (len(lead_scns), len(sim_scns), nrand, nmem))
    c.cov['warmup_classes'] = {k: sum(1 for s in allwu if wu_class(s[0]) == k) for k in ('healthy', 'degenerate', 'cold-below-one', 'never-cold', 'long-window')}
    c.cov['stat_intervals'] = {str(i): sum(1 for s in allwu + mem_scns if (s[0].get('si') or 1000) == i) for i in sorted(set([1000] + INTERVALS))}
    c.cov['reloads'] = dict(warmup_histories_with_reload=len(rl_scns), tlc_simulated=len(simrl), directed=len(fx), random=nrr,
                            reload_events=sum(1 for s in rl_scns for o in s if o['op'] == 'reload'),
                            identical_reloads=sum(1 for s in rl_scns for k, o in enumerate(s) if o['op'] == 'reload' and same_as_before(s, k)),
                            throttling=sum(1 for s in rl_scns if s[0].get('cb')),
                            mem_histories_with_reload=sum(1 for s in mem_scns if any(o['op'] == 'reload' for o in s)))
    c.cov['control_behaviour'] = dict(warmup_reject=sum(1 for s in allwu if not s[0].get('cb')), warmup_throttling=sum(1 for s in allwu if s[0].get('cb')),
                                      warmup_throttling_saturated_past_warmup=sum(
                                          1 for s in allwu if s[0].get('cb') and s[0].get('q', 0) > 0 and wu_class(s[0]) == 'healthy'
                                          and max_pace_run(s) >= 2 * s[0]['p'] + 4),
                                      mem_reject=sum(1 for s in mem_scns if not s[0].get('cb')), mem_throttling=sum(1 for s in mem_scns if s[0].get('cb')))
    c.sample(lead_scns[0][:8])
    c.sample(rand_scns[-1][:10])
    c.sample(mem_scns[0][:8])
    c.assumptions += ['thresholds are dyadic rationals of moderate size: every float the calculator computes is then exact or cannot cross an '
                      'integer boundary; a decision is accepted either way when cur + batch equals the rational threshold exactly',
                      'this is a transcription check with tolerances, not a proof about float arithmetic',
                      'envelope slack (stated in WarmUpOps): cold cap = ceil(T/cold) + 1, idle = 2*period + 2 s, warm after 2*period + 2 '
                      'saturated seconds (integer tokens stretch the warm-up), starvation = 2*period + 5 unserved seconds',
                      'DRIFT (a decision that differs from the transcription while staying inside the envelope) is reported in '
                      'conformance_mismatches and is not a verdict',
                      'TLC model checking is exhaustive for the configuration sets of WarmUp_MC (histories of any length: saturating counters) '
                      'and the grid of MemAdaptive_MC',
                      'throttling rules: single-token requests; the admitted rate is read as pacing (admissions per aligned second by admission '
                      'time, spacing owed after the last admission, recorded in microseconds with 2 us slack); "sustained demand" = consecutive '
                      'requests never further apart than MaxQueueingTimeMs (no due admission is missed), so rules with MaxQueueingTimeMs = 0 '
                      'are judged for E1, E2, E4 only; in the model a saturated second admits floor or ceil of the effective threshold']


main('C11', check)
