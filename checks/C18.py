"""C18 - datasource payloads are applied faithfully or rejected, never half-applied.

S1  TLC checks Datasource.tla exhaustively: the handler design (converter -> consistency check against the cached
    last property -> updater) and the file datasource (watch events -> read -> handle) satisfy the property level of
    DatasourceProp.tla (DeliverOK: no panic, List => exactly the valid rules in force, Empty => cleared, undecodable =>
    error and unchanged, ListWithNull/NullDoc => rejected or applied, identical re-delivery => no-op without a second
    update; a file source that has caught up enforces the file's content, never gives up an existing file and - under
    weak fairness of the watcher - always catches up).  Deliberately broken variants of the design must be caught
    (vacuity self-test); two of them are models of defects of the pinned tree.
S2  scenarios: (a) one per transition of bounded instances of the same spec (payload classes x deliveries, file event
    sequences), each mapped onto the five parsers with rotating concrete rule tables, (b) TLC random simulation of a
    larger instance, (c) seeded mutations of valid payloads (byte flips, truncation, type swaps, nulls, nesting, huge
    numbers, duplicate keys, garbage) and raw random bytes, (d) random rules written in each module's JSON wire format
    (round trip, ids included), (e) every / every n-th proper prefix of valid payloads, (f) fixed patterns.
    (g) WIRE FORMAT OF HOT-SPOT SPECIFIC ITEMS: one rule whose specificItems mix the four kinds (int, string, bool, float64)
    with boundary-rich values (0, negative, 2^31, 2^53-1, 11..15-digit integers carried as float64, 1.5, 1.23456789 -> five
    decimals, 1e-7, 1e300, empty / unicode strings, every bool spelling), several spellings of the same number and thresholds
    0 / 1 / large.  The scenario states the denoted value structurally; DatasourceProp!DescribedKeys / Round5 / ItemsOK say
    which typed keys the decoded map must hold (the driver reports the decoded Go keys in a canonical form and never calls
    the converter's normalisation), ItemProbeOK that a request whose argument IS the described value is limited by the item's
    own threshold.  Design level: ConvKey / ConverterKeyIsDescribed on a bounded universe of decimals, spec mutant itemTruncates.
S3  harness/cmd/c18 delivers the bytes to handlers built through the public constructors of ext/datasource (panics
    recovered and recorded) or writes / truncates / renames / removes the file of a file datasource, and records the
    returned error, the number of downstream updates and module.GetRules() as canonical tokens.  The driver decides the
    class of each payload and the rules it describes with encoding/json and its own mirror of the wire format.
S4  Datasource_Trace.tla (TLC) judges every recorded delivery / file event with the operators of DatasourceProp.tla.
"""
import base64, json, os, subprocess, sys
import vlib
from vlib import main, write_ndjson, read_ndjson, MachineryError

MODS = ['flow', 'system', 'circuitbreaker', 'hotspot', 'isolation']
NPOOL = 6      # range of "var": tokens V1..V3 rotate through the driver's pool of valid rules by it (hotspot has 8 entries: var 5 reaches the near-equal pair)
MUTS = ['flip', 'trunc', 'typeswap', 'null', 'nest', 'huge', 'dupkey', 'garbage']
SPEC_MUTANTS = ['inverted', 'emptyNoClear', 'nullPanicSwallowed', 'nullPanicEscapes', 'nullRejectedCacheAdvanced', 'keepsInvalid']
FILE_MUTANTS = ['renameOverClears']


def mc_cfg(withfile, maxlen, maxops, valid='MCValid', mutant='none', check=True, extra='', spec='Spec', view=True):
    return """SPECIFICATION %s
CONSTANTS
  ValidToks <- %s
  InvalidToks <- MCInvalid
  MaxLen = %d
  MaxOps = %d
  Mutant = "%s"
  WithFile = %s
%s
%s
CHECK_DEADLOCK FALSE
%s""" % (spec, valid, maxlen, maxops, mutant, 'TRUE' if withfile else 'FALSE', 'VIEW view' if view else '',
         'INVARIANTS TypeOK HandledOK OnlyValid FileCaughtUp WatchKept' if check else '', extra)


# ---------------------------------------------------------------------------------------------- scenarios
def payload_spec(o):
    """payload of a TLC history record (cls, l, k) as a driver payload spec"""
    cls = o['cls']
    if cls in ('List', 'ListWithNull'):
        return dict(kind='list', l=list(o['l']))
    if cls == 'Empty':
        return dict(kind='empty')
    if cls == 'NullDoc':
        return dict(kind='nulldoc')
    if cls == 'WrongType':
        return dict(kind='wrongtype', k=o['k'])
    if cls == 'Truncated':
        return dict(kind='truncated', k=o['k'])
    if cls == 'NotAnArray':
        return dict(kind='notarray', k=o['k'])
    raise MachineryError('unknown payload class in a TLC history: %r' % (o,))


def concretise(hist, mod, tr, var, cnt, grace=None):
    """TLC history -> driver scenario for module mod"""
    filemode = bool(hist) and hist[0]['op'] == 'fevent'
    new = dict(op='new', tr=tr, m=mod, mode='file' if filemode else 'handler', cnt=cnt and not filemode, var=var)
    if grace:
        new['grace'] = grace
    out = [new]
    for o in hist:
        if o['op'] == 'deliver':
            out.append(dict(op='deliver', **payload_spec(o)))
        else:
            e = dict(op='fevent', ev=o['ev'])
            if o['ev'] in ('init', 'write', 'renameover'):
                e.update(payload_spec(o))
            out.append(e)
    return out


def mutation_scenario(rng, mod, tr):
    """valid deliveries interleaved with seeded mutants of valid payloads and raw random bytes"""
    s = [dict(op='new', tr=tr, m=mod, mode='handler', cnt=rng.random() < 0.5, var=rng.randrange(NPOOL))]
    toks = ['V1', 'V2', 'V3', 'I1', 'I2']
    for _ in range(rng.randint(3, 7)):
        l = [rng.choice(toks) for _ in range(rng.randint(0, 3))]
        x = rng.random()
        if x < 0.25:
            s.append(dict(op='deliver', kind='list', l=l))
        elif x < 0.85:
            s.append(dict(op='deliver', kind='mut', l=l, mut=rng.choice(MUTS), seed=rng.randrange(1 << 30)))
        elif x < 0.95:
            n = rng.choice([1, 1, 2, 3, 5, 8, 16, 40])
            alphabet = rng.choice([None, b'[]{}",:0123456789nulltruefalse.-eE \n'])
            raw = bytes(rng.choice(alphabet) if alphabet else rng.randrange(256) for _ in range(n))
            s.append(dict(op='deliver', kind='raw', b64=base64.b64encode(raw).decode()))
        else:
            s.append(dict(op='deliver', kind=rng.choice(['empty', 'nulldoc'])))
        if rng.random() < 0.25:
            s.append(dict(s[-1]))       # the identical payload again
    return s


def wire_scenario(rng, mod, tr):
    return [dict(op='new', tr=tr, m=mod, mode='handler', cnt=False, var=0, ids=True),
            dict(op='deliver', kind='wire', seed=rng.randrange(1 << 30), n=rng.randint(1, 3))]


def pattern_scenarios(mod, tr0, grace):
    """fixed sequences that every run replays (classical sequences, the minimal forms of everything seen so far)"""
    L = lambda *t: dict(op='deliver', kind='list', l=list(t))
    E = dict(op='deliver', kind='empty')
    pats = [
        [L('V1'), L('V1'), L('V2'), L('V1')],
        [L('V1', 'I1', 'V2'), E, E, L('V1', 'I1', 'V2')],
        [L('V1'), L('Nil')], [L('Nil', 'V1')], [L('V1'), L('Nil', 'V2'), L('Nil', 'V2')], [L('Nil'), L('V1')],
        [L('V1', 'V2'), dict(op='deliver', kind='truncated', k=1), dict(op='deliver', kind='truncated', k=1), L('V1', 'V2')],
        [L('V1'), dict(op='deliver', kind='wrongtype', k=1), dict(op='deliver', kind='wrongtype', k=2), dict(op='deliver', kind='wrongtype', k=3)],
        [L('V1'), dict(op='deliver', kind='notarray', k=1), dict(op='deliver', kind='notarray', k=2), dict(op='deliver', kind='notarray', k=3)],
        [L('V2'), dict(op='deliver', kind='nulldoc'), L('V2')],
        [L('I1', 'I2'), L('V3'), L('I1')], [L(), L('V1'), L()],
        [L('V1', 'V1'), L('V1')],
        # payload P1 then a NEAR-EQUAL P2 (for hotspot and var 5, V2 / V3 are the same rule with the zero-threshold entries of
        # specificItems replaced, same entry count): GetRules must follow every payload
        [L('V2'), L('V3'), L('V2'), L('V1', 'V3'), L('V1', 'V2')],
    ]
    out, tr = [], tr0
    for var in range(NPOOL):
        for i, p in enumerate(pats):
            if var > 0 and i not in (0, 2, 3, len(pats) - 1):
                continue
            for cnt in (True, False):
                out.append([dict(op='new', tr=tr, m=mod, mode='handler', cnt=cnt, var=var)] + [dict(o) for o in p])
                tr += 1
    F = lambda ev, *t: dict(op='fevent', ev=ev, kind='list', l=list(t)) if ev in ('init', 'write', 'renameover') else dict(op='fevent', ev=ev)
    fpats = [
        [F('init', 'V1'), F('write', 'V2'), F('write', 'V2', 'V3'), F('trunc'), F('write', 'V1'), F('remove')],
        [F('init', 'V1'), F('renameover', 'V2'), F('write', 'V3')],
        [F('init', 'V1', 'V2'), dict(op='fevent', ev='write', kind='truncated', k=1), F('write', 'V3'), F('renameaway')],
        [F('init'), F('write', 'V1', 'I1'), dict(op='fevent', ev='write', kind='notarray', k=1), F('remove')],
    ]
    for p in fpats:
        out.append([dict(op='new', tr=tr, m=mod, mode='file', cnt=False, var=tr % NPOOL, grace=grace)] + [dict(o) for o in p])
        tr += 1
    return out


def truncall_scenario(rng, mod, tr, stride):
    l = [rng.choice(['V1', 'V2', 'V3']) for _ in range(rng.randint(1, 2))]
    return [dict(op='new', tr=tr, m=mod, mode='handler', cnt=True, var=rng.randrange(NPOOL)),
            dict(op='deliver', kind='list', l=l),
            dict(op='truncall', l=l, stride=stride, off=rng.randrange(stride))]


# ---------------------------------------------------------------------------------------------- wire format of specific items
FLOATS = ['0', '-0.0', '1.5', '-1.5', '1.23456789', '0.123456789', '-0.123456789', '2.000004', '2.000006', '2.000005', '0.00001', '0.000004',
          '0.000006', '1e-7', '-1e-7', '0.99999999', '9.999996', '-9.999996', '99999.999996', '1e3', '1000', '1e300', '-2.5e-300',
          '1.7976931348623157e308', '5e-324', '2147483648', '4294967296', '-4294967297', '9007199254740991', '9007199254740992',
          '8613812345678', '8613812345678.5', '861381234567.25', '-8613812345678', '4503599627370497', '123456789.123456', '1234567890.12345',
          '12345678901.2345', '0.1', '0.3', '100000.00001', '3.14159', '2.71828182']
INTS = ['0', '-0', '1', '-1', '7', '42', '2147483647', '2147483648', '-2147483648', '4294967296', '9007199254740991', '-9007199254740993',
        '9223372036854775807', '-9223372036854775808', '8613812345678']
STRINGS = ['', ' ', 'x', 'alice', 'true', 'false', '7', '1.5', '8613812345678', 'a"b\\c', 'null', 'caf\u00e9', '\u65e5\u672c\u8a9e', 'tab\there', 'A' * 80, '{"k":1}', '-0']
BOOLS = ['1', 't', 'T', 'TRUE', 'true', 'True', '0', 'f', 'F', 'FALSE', 'false', 'False']
THRS = [0, 0, 1, 1, 2, 3, 5, 100, 2147483647]


def dec_of(text):
    """(neg, digits, e) with value = 0.d1..dn x 10^e of a decimal text (the structural description given to the spec)"""
    from decimal import Decimal
    sign, digits, exp = Decimal(text).as_tuple()
    digits = list(digits)
    while digits and digits[0] == 0:
        digits.pop(0)
    while digits and digits[-1] == 0:
        digits.pop()
        exp += 1
    if not digits:
        return False, [], 0
    return bool(sign), digits, len(digits) + exp


def respell(rng, text, kind):
    """another spelling of the same number (what strconv accepts): sign, leading / trailing zeros, exponent notation"""
    neg, dig, e = dec_of(text)
    if kind == 0:
        body = ''.join(map(str, dig)) + '0' * (e - len(dig)) if dig else '0'
        x = rng.random()
        return ('-' if neg else '+' if x < 0.15 else '') + ('00' if 0.15 <= x < 0.3 else '') + body
    x = rng.random()
    if x < 0.4 or not dig:
        return text
    ds = ''.join(map(str, dig))
    if x < 0.7 or e > 25 or e < -12:          # scientific
        m = ds[0] + ('.' + ds[1:] if len(ds) > 1 else '')
        return ('-' if neg else '') + m + rng.choice(['e', 'E', 'e+' if e - 1 >= 0 else 'e']) + str(e - 1)
    if e <= 0:
        body = '0.' + '0' * (-e) + ds
    elif e >= len(ds):
        body = ds + '0' * (e - len(ds)) + rng.choice(['', '.0', '.'])
    else:
        body = ds[:e] + '.' + ds[e:] + rng.choice(['', '0', '00'])
    return ('-' if neg else rng.choice(['', '', '+'])) + body


def items_scenario(rng, tr):
    """one hot-spot rule whose specificItems mix all four kinds: boundary-rich values, several spellings, thresholds 0 / 1 / large"""
    items, seen = [], set()

    def add(kind, text, base=None):
        thr = rng.choice(THRS)
        it = dict(kind=kind, text=text, thr=thr, neg=False, dig=[], e=0, s='', probe=False)
        if kind in (0, 3):
            neg, dig, e = dec_of(base if base is not None else text)
            if kind == 0:             # an integer is described by ALL its digits
                dig, e = dig + [0] * (e - len(dig)), 0
            it.update(neg=neg, dig=dig, e=e)
            key = (kind, neg, tuple(dig), e)
            it['probe'] = thr <= 3 and (kind == 0 or len(dig) - e <= 5)
        else:
            it['s'] = text
            key = (kind, text if kind == 1 else text in ('1', 't', 'T', 'TRUE', 'true', 'True'))
            it['probe'] = thr <= 3
        if key not in seen:
            seen.add(key)
            items.append(it)
    for _ in range(rng.randint(3, 8)):
        x = rng.random()
        if x < 0.5:
            y = rng.random()
            if y < 0.45:
                base = rng.choice(FLOATS)
            elif y < 0.8:            # integers of 11..15 digits carried as float64 (ids, phone numbers), some with 1..2 decimals
                n = rng.randint(11, 15)
                base = str(rng.randrange(10 ** (n - 1), 10 ** n))
                if n <= 13 and rng.random() < 0.3:
                    base += '.' + str(rng.randrange(1, 10 ** min(2, 15 - n)))
            else:                    # up to 15 significant digits anywhere
                n, f = rng.randint(1, 9), rng.randint(1, 9)
                f = min(f, 15 - n)
                base = str(rng.randrange(10 ** (n - 1), 10 ** n)) + '.' + str(rng.randrange(0, 10 ** f)).rjust(f, '0')
                if rng.random() < 0.3:
                    base = '-' + base
            add(3, respell(rng, base, 3), base)
        elif x < 0.7:
            base = rng.choice(INTS) if rng.random() < 0.6 else str(rng.randrange(-10 ** 13, 10 ** 13))
            add(0, respell(rng, base, 0), base)
        elif x < 0.9:
            add(1, rng.choice(STRINGS))
        else:
            add(2, rng.choice(BOOLS))
    probed = [it for it in items if it['probe']]
    for it in probed[4:]:
        it['probe'] = False
    return [dict(op='new', tr=tr, m='hotspot', mode='handler', cnt=False, var=0), dict(op='items', items=items)]


def maximal(hs):
    """drop histories that are proper prefixes of another history"""
    keys = sorted(set(json.dumps(x, sort_keys=True)[:-1] for x in hs if x))
    out = []
    for i, k in enumerate(keys):
        if i + 1 < len(keys) and keys[i + 1].startswith(k) and keys[i + 1][len(k)] == ',':
            continue
        out.append(json.loads(k + ']'))
    return out


# ---------------------------------------------------------------------------------------------- drive + validate
def drive(c, drv, scns, tag):
    """run the driver (file-mode scenarios of different modules in parallel processes); returns the trace path"""
    tp = os.path.join(c.scratch, tag + '.trace.ndjson')
    groups = {}
    for s in scns:
        key = s[0]['m'] if s[0]['mode'] == 'file' else '-'
        groups.setdefault(key, []).append(s)
    procs = []
    for i, (key, g) in enumerate(sorted(groups.items())):
        sp = os.path.join(c.scratch, '%s.%d.scn.ndjson' % (tag, i))
        op = os.path.join(c.scratch, '%s.%d.trace.ndjson' % (tag, i))
        write_ndjson(sp, [o for s in g for o in s])
        procs.append((subprocess.Popen([drv, sp, op], cwd=c.scratch, env=vlib.goenv(), stdout=subprocess.PIPE, stderr=subprocess.PIPE, text=True), op))
    with open(tp, 'w') as out:
        for p, op in procs:
            try:
                _, err = p.communicate(timeout=900)
            except subprocess.TimeoutExpired:
                p.kill()
                raise MachineryError('%s: driver timed out' % tag)
            if p.returncode != 0:
                raise MachineryError('%s: driver failed rc=%d\n%s' % (tag, p.returncode, (err or '')[-3000:]))
            out.write(open(op).read())
    return tp


def run_and_validate(c, drv, scns, tag, count=True):
    """returns ([(tr, line, expected_json, observed_event)], trace_path)"""
    tp = drive(c, drv, scns, tag)
    lines = open(tp).read().splitlines()
    nlines = len(lines)
    mism, consumed, r = c.validate('Datasource_Trace', tp, nlines)
    if consumed != nlines:
        raise MachineryError('%s: trace validation consumed %d of %d lines (malformed trace?)\n%s' % (tag, consumed, nlines, r.out[-1500:]))
    if count:
        c.cov['traces_validated_against_impl'] += len(scns)
        c.cov['evaluations'] += nlines - len(scns)
        c.log('S3/S4 %s: %d scenarios, %d events validated in %.0fs, %d mismatching traces' % (tag, len(scns), nlines - len(scns), r.wall, len(mism)))
    return [(tr, ln, exp, json.loads(lines[ln - 1])) for tr, ln, exp in mism], tp


def payload_of(ev):
    try:
        return base64.b64decode(ev.get('b64', ''))
    except Exception:
        return b''


def signature(mod, exp, ev):
    """(classify key or None, group signature, why) of a mismatch; keys name the minimal failing pattern"""
    try:
        x = json.loads(exp)
    except Exception:
        x = {}
    why = x.get('why', '?')
    before = sorted(x.get('before', []))
    key = None
    if ev['op'] == 'items':
        return None, '%s/items/%s' % (mod, why), why
    if ev['op'] == 'deliver':
        unchanged = before == sorted(ev['after'])
        if ev['panic']:
            key = None
        elif ev['cls'] == 'ListWithNull' and not ev['err'] and unchanged and not x.get('redelivery'):
            # a null element: nothing applied, yet no error (the panic of the updater is swallowed by Handle's recover)
            key = 'C18/%s/null-element/panic-swallowed-nil-error' % mod
        elif why.startswith('identical') and unchanged and ev['upd'] >= 1 and mod == 'flow' and cold_factor_defaulted(ev):
            key = 'C18/flow/warmup-cold-factor-defaulted-in-callers-rule/identical-redelivery-updates-again'
        elif mod == 'hotspot' and param_key_dropped(ev):
            key = 'C18/hotspot/wire-format/paramKey-dropped'
        sig = '%s/deliver/%s/%s/err=%s/panic=%s' % (mod, ev['cls'], why, ev['err'], ev['panic'])
    else:
        if ev['ev'] == 'renameover' and not ev['panic'] and [] in ev['seen'][1:] and [] not in x.get('allowed_meanwhile', [[]]):
            # the replaced inode reports "removed": the rules are cleared although the path always held a file
            key = 'C18/file/rename-over/rules-cleared-and-watch-lost'
        elif ev['ev'] == 'renameover' and not ev['panic'] and why == 'convergence' and ev['after'] == [] and before == []:
            key = 'C18/file/rename-over/rules-cleared-and-watch-lost'
        elif mod == 'hotspot' and ev['ev'] != 'renameover' and param_key_dropped(ev):
            key = 'C18/hotspot/wire-format/paramKey-dropped'
        sig = '%s/fevent/%s/%s/%s' % (mod, ev['ev'], ev['cls'], why)
    return key, (key or sig), why


def cold_factor_defaulted(ev):
    """the payload holds a warm-up rule that leaves the cold factor to the default"""
    try:
        return any(isinstance(r, dict) and r.get('tokenCalculateStrategy') == 1 and r.get('warmUpColdFactor', 0) == 0 for r in json.loads(payload_of(ev)))
    except Exception:
        return False


def param_key_dropped(ev):
    """hot-spot: the observed outcome is exactly what the statement demands for the payload read WITHOUT its paramKey
    members (the driver records that reading as "alt" whenever it differs from the real one)"""
    alt = ev.get('alt')
    if not alt or ev.get('err') or ev['panic']:
        return False
    return alt['cls'] in ('List', 'ListWithNull') and sorted(alt['desc']) == sorted(ev['after'])


def size(s):
    return sum(1 + len(o.get('l') or []) + len(o.get('items') or []) for o in s)


def candidates(s):
    out = []
    for i in range(1, len(s)):
        if s[i]['op'] == 'items' and len(s[i]['items']) > 1:
            for j in range(len(s[i]['items'])):
                out.append(s[:i] + [dict(s[i], items=s[i]['items'][:j] + s[i]['items'][j + 1:])] + s[i + 1:])
    if out:
        return out
    for i in range(1, len(s)):
        if s[i]['op'] == 'fevent' and s[i]['ev'] == 'init':
            continue
        if len(s) > 2:
            out.append(s[:i] + s[i + 1:])
    for i in range(1, len(s)):
        l = s[i].get('l') or []
        for j in range(len(l) if len(l) > 1 else 0):
            o = dict(s[i])
            o['l'] = l[:j] + l[j + 1:]
            # keep identical re-deliveries identical: shrink every operation that carries the same list
            out.append([o if k == i else (dict(x, l=o['l']) if x.get('l') == l and x.get('kind') == s[i].get('kind') else x) for k, x in enumerate(s)])
    return out


def collect(groups, scns, mism):
    by_tr = {s[0]['tr']: s for s in scns}
    for tr, ln, exp, ev in mism:
        s = by_tr[tr]
        key, gsig, why = signature(s[0]['m'], exp, ev)
        g = groups.setdefault(gsig, dict(key=key, why=why, n=0, best=None))
        g['n'] += 1
        if g['best'] is None or size(s) < size(g['best']):
            g['best'] = s


def run_batch(c, drv, items, tag):
    """items: [(gsig, scenario)] -> {index: (exp, ev)} for the items that fail with their group's signature"""
    batch = []
    for k, (gsig, s) in enumerate(items):
        s = [dict(o) for o in s]
        s[0]['tr'] = 900000 + k
        batch.append(s)
    mism, _ = run_and_validate(c, drv, batch, tag, count=False)
    hit = {}
    for tr, ln, exp, ev in mism:
        k = tr - 900000
        if signature(items[k][1][0]['m'], exp, ev)[1] == items[k][0]:
            hit[k] = (exp, ev)
    return hit


def conclude(c, drv, groups):
    """per group: minimise the shortest scenario (greedy, one operation at a time, all groups batched per round),
    confirm twice in fresh processes, then known finding / violation"""
    if not groups:
        return
    cur = {}
    for gsig, g in groups.items():
        s = [dict(o) for o in g['best']]
        if g['why'] == 'convergence':
            s[0]['grace'] = 2500      # the observed states were legitimate, just late: wait much longer before judging
        cur[gsig] = s
    for rnd in range(5):
        items = [(gsig, cand) for gsig, s in sorted(cur.items()) if groups[gsig]['why'] != 'convergence' for cand in candidates(s)]
        if not items:
            break
        hit = run_batch(c, drv, items, 'min%d' % rnd)
        progress = False
        for k in sorted(hit):
            gsig, cand = items[k]
            if size(cand) < size(cur[gsig]):
                cur[gsig] = cand
                progress = True
        if not progress:
            break
    order = sorted(cur)
    conf = [run_batch(c, drv, [(g, cur[g]) for g in order], 'confirm%d' % i) for i in range(2)]
    for k, gsig in enumerate(order):
        g, s = groups[gsig], cur[gsig]
        mod = s[0]['m']
        rp = c.save_replay('%s-tr%d.ndjson' % (gsig.replace('/', '_').replace(' ', '_')[:80], s[0]['tr']), s)
        ok = sum(1 for h in conf if k in h)
        if ok < 2 and g['why'] == 'convergence':
            # merely late under the short grace period: with the long one the source converged
            c.cov['late_file_events'] = c.cov.get('late_file_events', 0) + g['n']
            c.log('file events that converged only with the long grace period: %s (%d traces)' % (gsig, g['n']))
            os.remove(rp)
            continue
        if ok < 2:
            c.inconclusive.append('mismatch group %s (%d traces) did not reproduce from %s (%d/2)' % (gsig, g['n'], rp, ok))
            continue
        exp, ev = conf[1][k]
        obs = {f: ev[f] for f in ('op', 'ev', 'cls', 'desc', 'err', 'panic', 'upd', 'seen', 'after') if f in ev}
        what = '%s handler: %s; the statement allows %s; observed %s; payload %r (%d traces of this kind)' % (
            mod, g['why'], exp[:300], json.dumps(obs)[:400], payload_of(ev)[:160], g['n'])
        if ev['op'] == 'items':
            fmt = lambda g: '%s %s%s%s thr %d' % (g['t'], '-' if g['neg'] else '', ('0.' + ''.join(map(str, g['dig'])) + 'e%d' % g['e']) if g['t'] == 'float' and g['dig']
                                              else ''.join(map(str, g['dig'])) if g['t'] in ('int', 'float') else repr(g['s']) if g['t'] == 'string' else g['b'], '', g['thr'])
            what = ('hotspot handler: %s: the payload\'s specificItems %s decode to the keys [%s]%s; the statement allows %s; payload %r (%d traces of this kind)' % (
                g['why'], json.dumps([[it['kind'], it['text'], it['thr']] for it in ev['items']]), '; '.join(fmt(x) for x in ev['got']),
                ', probes (item, requests, admitted) %s' % [[p['i'], p['n'], p['adm']] for p in ev['probes']] if ev['probes'] else '', exp[:500], payload_of(ev)[:300], g['n']))
        c.cov.setdefault('finding_groups', []).append(dict(group=gsig, traces=g['n'], replay=rp))
        if g['key'] and c.is_known(g['key']):
            c.known(g['key'], c.kf[g['key']]['description'])
        elif g['why'] == 'convergence':
            # Never a verdict from a wait alone (DESIGN section 6).  The state stayed unjustified after 2.5 s of quiet in two fresh
            # processes; it becomes a violation only if, in a third process, the SAME datasource instance is shown to be alive:
            # a further write of different content (appended to the scenario) is picked up, while the event in question still
            # never is.  Otherwise (slow machine, dead watcher for another reason): inconclusive.
            cut = max([i for i, o in enumerate(s) if o.get('op') == 'fevent' and o.get('ev') == ev.get('ev')] or [len(s) - 1])
            ctl = [dict(o) for o in s[:cut + 1]] + [dict(op='fevent', ev='write', kind='list', l=['V3', 'V1', 'V2'])]
            ctl[0]['tr'] = 990000 + k
            mism2, tp2 = run_and_validate(c, drv, [ctl], 'control%d' % k, count=False)
            evs = [e for e in read_ndjson(tp2) if e.get('op') == 'fevent']
            alive = bool(evs) and not evs[-1].get('panic') and sorted(evs[-1].get('after') or []) == ['V1', 'V2', 'V3']
            still = any(signature(mod, exp2, ev2)[1] == gsig for _, _, exp2, ev2 in mism2)
            if alive and still:
                c.violation(what + ' -- the datasource is alive (a later write of other content was applied) but this event never was', rp)
            else:
                c.inconclusive.append('file datasource did not converge within 2.5 s of quiet after the event (%s; control write applied: %s): %s'
                                      % (gsig, alive, what[:600]))
        else:
            c.violation(what, rp)


def binding_selftest(c, tp, bad_trs):
    """corrupt one recorded observable in each of N good traces: every one must be rejected"""
    lines = [json.loads(l) for l in open(tp)]
    out, want, n, skip, done = [], set(), 0, True, True
    for e in lines:
        if e['op'] == 'new':
            if n >= 60:
                break
            skip = e['tr'] in bad_trs
            done = skip
            if not skip:
                n += 1
                cur = e['tr']
        elif not skip and not done and e.get('dom') and c.rng.random() < 0.6:
            kind = c.rng.choice(['after', 'panic', 'err'] if e['op'] == 'deliver' else ['after', 'panic'])
            if kind == 'err' and e['cls'] not in ('WrongType', 'Truncated', 'NotAnArray'):
                kind = 'after'
            if kind == 'after':
                e['after'] = sorted(e['after'] + ['BOGUS'])
                if 'seen' in e:
                    e['seen'][-1] = e['after']
            elif kind == 'panic':
                e['panic'] = True
            else:
                e['err'] = False
            done = True
            want.add(cur)
        if not skip:
            out.append(e)
    cp = os.path.join(c.scratch, 'corrupt.ndjson')
    write_ndjson(cp, out)
    mism, consumed, r = c.validate('Datasource_Trace', cp, len(out))
    got = {m[0] for m in mism}
    if got != want or not want:
        raise MachineryError('binding self-test failed: corrupted traces %s, rejected %s' % (sorted(want), sorted(got)))
    c.cov['binding_selftest'] = '%d corrupted traces, all rejected' % len(want)
    c.log('binding self-test: %d corrupted traces, all rejected by Datasource_Trace' % len(want))


def binding_selftest_items(c, tp, bad_trs):
    """specific-items traces: corrupt one reported key (a digit, the exponent, the type, the threshold, a probe count) in each
    of the first good traces: every one must be rejected"""
    lines = [json.loads(l) for l in open(tp)]
    out, want, cur, kinds = [], set(), None, {}
    for e in lines:
        if e['op'] == 'new':
            cur = e['tr']
        elif cur not in bad_trs and len(want) < 60 and e['got']:
            g = c.rng.choice(e['got'])
            k = c.rng.choice(['digit', 'thr', 'type', 'exp', 'probe'])
            if k == 'probe' and e['probes']:
                p = c.rng.choice(e['probes'])
                p['adm'] = p['adm'] + 1 if p['adm'] < p['n'] else p['adm'] - 1
            elif k == 'digit' and g['dig']:
                g['dig'][-1] = g['dig'][-1] % 9 + 1
            elif k == 'exp' and g['t'] == 'float' and g['dig']:
                g['e'] += 1
            elif k == 'type':
                g['t'] = 'int64'
            else:
                k, g['thr'] = 'thr', g['thr'] + 1 if g['thr'] < 2147483647 else 7
            kinds[k] = kinds.get(k, 0) + 1
            want.add(cur)
        out.append(e)
    cp = os.path.join(c.scratch, 'corrupt-items.ndjson')
    write_ndjson(cp, out)
    mism, consumed, r = c.validate('Datasource_Trace', cp, len(out))
    got = {m[0] for m in mism} - set(bad_trs)
    if got != want or not want:
        raise MachineryError('binding self-test (specific items) failed: corrupted traces %s, rejected %s' % (sorted(want), sorted(got)))
    c.cov['binding_selftest_items'] = '%d corrupted traces (%s), all rejected' % (len(want), kinds)
    c.log('binding self-test (specific items): %d corrupted traces (%s), all rejected by Datasource_Trace' % (len(want), kinds))


def nontrivial(trace_events):
    """a trace is non-trivial if some delivery / file event changes the rules in force, or an undecodable / null-carrying
    payload arrives while rules are in force (so 'previous rules stay in force' is actually exercised)"""
    cur = []
    for e in trace_events:
        if e['op'] == 'new':
            continue
        if sorted(e['after']) != sorted(cur):
            return True
        if cur and e['cls'] in ('WrongType', 'Truncated', 'NotAnArray', 'ListWithNull', 'NullDoc'):
            return True
        cur = e['after']
    return False


def count_cover(c, tp, seen_keys, classes):
    cur, evs = None, []

    def flush():
        if cur is not None:
            for e in evs[1:]:
                k = '%s/%s' % (cur['m'], e['cls'] if e['op'] == 'deliver' else 'file:' + e['ev'])
                classes[k] = classes.get(k, 0) + 1
            if nontrivial(evs):
                seen_keys.add(json.dumps([cur['m']] + [[e['op'], e.get('ev'), e['pid'], e['after']] for e in evs[1:]]))
    for l in open(tp):
        e = json.loads(l)
        if e['op'] == 'new':
            flush()
            cur, evs = e, [e]
        else:
            evs.append(e)
    flush()


# ---------------------------------------------------------------------------------------------- the check
def check(c, tier, replay):
    drv = c.build('c18')
    if replay:
        s = read_ndjson(replay)
        mism, _ = run_and_validate(c, drv, [s], 'replay')
        if mism:
            tr, ln, exp, ev = mism[0]
            key, _, why = signature(s[0]['m'], exp, ev)
            if key and c.is_known(key):
                c.known(key, c.kf[key]['description'])
            elif why == 'convergence':
                c.inconclusive.append('file datasource did not converge within the grace period (never a verdict from a wait alone): allowed %s, observed %s' % (exp[:300], json.dumps(ev)[:300]))
            else:
                c.violation('replayed scenario violates the statement at trace line %d: allowed %s, observed %s' % (ln, exp[:300], json.dumps(ev)[:400]), replay)
        c.cov['states'] = c.cov['transitions'] = 1
        c.sample(s[:6])
        return
    thorough = tier == 'thorough'
    rng = c.rng
    grace = 150

    # S1 ---------------------------------------------------------------------------------
    runs = [(False, 2, 4, 'MCValid'), (True, 1, 4, 'MCValid')] if not thorough else [(False, 2, 4, 'MCValid3'), (False, 3, 3, 'MCValid'), (True, 2, 4, 'MCValid'), (True, 1, 5, 'MCValid')]
    for withfile, maxlen, maxops, valid in runs:
        r = c.model_check('Datasource_MC', cfg_text=mc_cfg(withfile, maxlen, maxops, valid), workers=8, timeout=1500)
        if not r.completed:
            c.inconclusive.append('Datasource.tla: %s violated (WithFile=%s MaxLen=%d MaxOps=%d) - the design model no longer satisfies the property' % (r.violated, withfile, maxlen, maxops))
    # liveness: under weak fairness of the watcher the source always catches up with the file
    r = c.model_check('Datasource_MC', cfg_text=mc_cfg(True, 1, 2 if not thorough else 3, check=False, spec='FairSpec', view=False, extra='PROPERTIES Converges\n'), workers=4, timeout=900)
    if not r.completed:
        c.inconclusive.append('Datasource.tla: liveness property Converges: %s' % (r.violated or 'not completed'))
    # vacuity: every deliberately broken design must be caught by the same invariants
    caught = []
    for mut in SPEC_MUTANTS + FILE_MUTANTS:
        withfile = mut in FILE_MUTANTS
        r = c.tlc('Datasource_MC', cfg_text=mc_cfg(withfile, 2 if not withfile else 1, 3, mutant=mut), workers=2, timeout=600, count=False)
        if not r.violated:
            raise MachineryError('spec-level mutant %s is not caught by the invariants (vacuous property?)\n%s' % (mut, r.out[-1500:]))
        caught.append('%s:%s' % (mut, r.violated))
    # the converter of specific items: every decimal of a bounded universe is converted to a key the payload describes
    r = c.model_check('Datasource_MC', cfg_text=mc_cfg(False, 1, 1, 'MCValid').replace('INVARIANTS TypeOK', 'INVARIANTS ConverterKeyIsDescribed TypeOK'), workers=2, timeout=600)
    if not r.completed:
        c.inconclusive.append('Datasource.tla: ConverterKeyIsDescribed does not hold (%s)' % (r.violated or r.error))
    r = c.tlc('Datasource_MC', cfg_text=mc_cfg(False, 1, 1, 'MCValid', mutant='itemTruncates').replace('INVARIANTS TypeOK', 'INVARIANTS ConverterKeyIsDescribed TypeOK'),
              workers=2, timeout=600, count=False)
    if not (r.violated == 'ConverterKeyIsDescribed' or 'ConverterKeyIsDescribed is equal to FALSE' in r.out):
        raise MachineryError('spec-level mutant itemTruncates is not caught (vacuous ConverterKeyIsDescribed?)\n%s' % r.out[-1500:])
    caught.append('itemTruncates:ConverterKeyIsDescribed')
    c.cov['spec_mutants_caught'] = caught
    c.log('S1 vacuity: %d broken designs, all caught (%s)' % (len(caught), ', '.join(caught)))
    c.cov['exhaustive'] = True

    # S2 ---------------------------------------------------------------------------------
    scns, tr = [], 0

    def gen(withfile, maxlen, maxops, valid, cap, args=(), workers=1):
        cfg = mc_cfg(withfile, maxlen, maxops, valid, check=False, extra='ACTION_CONSTRAINT Emit\n')
        r = c.tlc('Datasource_MC', cfg_text=cfg, workers=workers, timeout=900, count=False, args=list(args))
        if r.error and not args:
            raise MachineryError('scenario generation failed: %s' % r.error)
        keep = maximal(r.json_prints())
        n = len(keep)
        if len(keep) > cap:
            keep = rng.sample(keep, cap)
        return keep, n

    cover = {}
    hs, n = gen(False, 2, 3, 'MCValid', 1500 if not thorough else 12000)
    cover['handler'] = n
    for i, h in enumerate(hs):
        tr += 1
        scns.append(concretise(h, MODS[i % 5], tr, rng.randrange(NPOOL), cnt=rng.random() < 0.5))
    hs, n = gen(False, 3, 9, 'MCValid3', 10 ** 9, args=['-simulate', 'num=%d' % (60 if not thorough else 600), '-depth', '9', '-seed', str(c.seed)])
    cover['handler_sim'] = len(hs)
    for i, h in enumerate(hs):
        tr += 1
        scns.append(concretise(h, MODS[i % 5], tr, rng.randrange(NPOOL), cnt=rng.random() < 0.5))
    fscns = []
    hs, n = gen(True, 1, 3 if not thorough else 4, 'MCValid', 35 if not thorough else 500)
    cover['file'] = n
    hs2, _ = gen(True, 2, 7, 'MCValid', 10 ** 9, args=['-simulate', 'num=%d' % (25 if not thorough else 300), '-depth', '14', '-seed', str(c.seed)])
    for i, h in enumerate(hs + [h for h in hs2 if len(h) > 2]):
        tr += 1
        fscns.append(concretise(h, MODS[i % 5], tr, rng.randrange(NPOOL), cnt=False, grace=grace))
    c.log('S2 transition cover: %d handler histories (%d sampled), %d simulated behaviours, %d file histories (%d sampled)' % (
        cover['handler'], min(cover['handler'], 1500 if not thorough else 12000), cover['handler_sim'], cover['file'], len(fscns)))
    muts, wires, truncs, pats = [], [], [], []
    for mod in MODS:
        for _ in range(160 if not thorough else 2500):
            tr += 1
            muts.append(mutation_scenario(rng, mod, tr))
        for _ in range(120 if not thorough else 1500):
            tr += 1
            wires.append(wire_scenario(rng, mod, tr))
        for _ in range(2 if not thorough else 6):
            tr += 1
            truncs.append(truncall_scenario(rng, mod, tr, 5 if not thorough else 1))
        p = pattern_scenarios(mod, tr + 1, grace)
        tr += len(p)
        pats += p

    itms = []
    for _ in range(200 if not thorough else 3000):
        tr += 1
        itms.append(items_scenario(rng, tr))

    # S3 + S4 ----------------------------------------------------------------------------
    groups, nt, classes = {}, set(), {}
    selftested = False
    for tag, group in (('tlc', scns), ('patterns', pats), ('mutations', muts), ('wire', wires), ('prefixes', truncs), ('items', itms), ('file', fscns)):
        for i in range(0, len(group), 3000):
            part = group[i:i + 3000]
            mism, tp = run_and_validate(c, drv, part, '%s%d' % (tag, i))
            c.cov['conformance_mismatches'] += len(mism)
            collect(groups, part, mism)
            if tag == 'items':
                binding_selftest_items(c, tp, {m[0] for m in mism})
                continue
            count_cover(c, tp, nt, classes)
            if not selftested and tag == 'tlc':
                binding_selftest(c, tp, {m[0] for m in mism})
                selftested = True
            if tag == 'file':
                to = sum(1 for l in open(tp) if '"timeout":true' in l)
                if to:
                    c.inconclusive.append('%d file events did not settle within the 20 s cap' % to)
    conclude(c, drv, groups)
    missing = [m + '/' + k for m in MODS for k in ('List', 'ListWithNull', 'NullDoc', 'WrongType', 'Truncated', 'NotAnArray', 'Empty',
                                                   'file:init', 'file:write', 'file:trunc', 'file:renameover', 'file:renameaway', 'file:remove')
               if not classes.get(m + '/' + k)]
    if missing:
        c.inconclusive.append('payload classes / file events never exercised: %s' % ', '.join(missing))
    c.cov['events_by_module_and_class'] = classes
    its = [it for s in itms for it in s[1]['items']]
    big = [it for it in its if it['kind'] == 3 and it['e'] >= 11]
    c.cov['specific_items_wire_format'] = dict(
        scenarios=len(itms), items=len(its), by_kind={k: sum(1 for it in its if it['kind'] == k) for k in range(4)},
        distinct_values=len({json.dumps([it['kind'], it['neg'], it['dig'], it['e'], it['s']]) for it in its}),
        floats_of_11_to_15_integer_digits=len(big), floats_with_more_than_five_decimals=sum(1 for it in its if it['kind'] == 3 and len(it['dig']) - it['e'] > 5),
        probed=sum(1 for it in its if it['probe']))
    if len(big) < 60:
        c.inconclusive.append('specific items: only %d float keys of 11..15 integer digits were delivered' % len(big))
    c.cov['distinct_nontrivial'] = len(nt) + len({json.dumps(s[1], sort_keys=True) for s in itms})
    c.cov['rule'] = ('scenarios = seeded sample of one-per-transition histories of the bounded Datasource spec (%d handler, %d file histories before '
                     'sampling) x 5 parsers + TLC simulation + seeded payload mutations / raw bytes + wire-format round trips + payload prefixes + '
                     'fixed patterns; non-trivial = distinct (module, payload identities, observed states) sequence in which the rules in force '
                     'change at least once or an undecodable / null-carrying payload arrives while rules are in force' % (cover['handler'], cover['file']))
    c.sample(scns[len(scns) // 2])
    c.sample(muts[0][:5])
    c.sample(fscns[0] if fscns else pats[-1])
    c.assumptions += [
        'specific items: numeric texts have at most 15 significant digits (or are exactly representable / the shortest spelling of a float64) so that the float64 the '
        'text is read into round-trips to the described decimal; on an exact five-decimal tie either neighbour is accepted; int texts fit int64; thresholds < 2^31 (TLC)',
        '"all byte strings" is sampled: classes are enumerated by TLC, concrete bytes by seeded mutation of valid payloads, raw random bytes and payload prefixes (every prefix in the thorough tier)',
        'what a payload describes is decided by the driver with encoding/json and its own mirror of the wire format (struct tags of core/<module>/rule.go; hot-spot specificItems in the ext/datasource encoding); validity of a described rule is the module\'s exported IsValid... function (the validity filter itself is property C13)',
        'rules are compared as sets of canonical field tuples; ids only in single-delivery wire-format scenarios (the rule managers ignore the id in their equality); flow warmUpColdFactor <= 1 on a warm-up rule and the hot-spot specificItems encoding are normalised on both sides',
        'rules naming a strategy / behaviour without generator, statistic intervals above one hour or unreadable specific items are outside the decidable domain (dom=false): only "no panic" and "error => unchanged" are judged for them',
        'file datasource: convergence is judged after the module state has been quiet for the grace period (150 ms; 2.5 s on confirmation); a state that is merely late is reported as inconclusive (exit 2); a state the file never justified is a violation, and so is an event that is never applied in three fresh processes while a later control write on the same instance is',
        'TLC model checking is exhaustive only for the bounds listed in tlc_runs']


main('C18', check)
