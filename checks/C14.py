"""C14 - reloading rules does not disturb the runtime state of unchanged rules.

S1  TLC checks RuleReuse.tla exhaustively: with the reuse relation of the statement (identical rules keep their
    controller, matched as multisets in order; equal statistic parameters keep the statistics) a primary instance that
    executes every reload and a shadow instance that skips the reloads of the unchanged rule agree on the watched
    rule's state (ReloadInvisible), for all reload sequences over lists with duplicates / reorderings / stat-compatible
    and stat-incompatible other rules.  The reuse algorithm of the pinned code ("greedy"), reuse by position and no
    reuse at all must each VIOLATE ReloadInvisible (vacuity self-test; "greedy" is the lead for finding #25).
S2  RuleReuse_Shapes.tla: TLC enumerates every reload shape (old list, new list) with 1 watched rule + <= 2 others and
    says which reloads must be invisible, which add copies of the watched rule, and what the statement's / the greedy
    relation do.  Each shape is combined with a stateful KIND (open breaker with pending deadline, half-full throttling
    queue, warm-up tokens, standalone-window count, hot-parameter token bucket / pacing / concurrency) and a reload
    position in its <= 8-step traffic history; the entry point of the initial load (whole-set / per-resource) and of the
    reload (whole-set / whole-set with another resource changed / per-resource) are chosen independently, and so is the
    spelling of the optional fields of the rules (written out / left at zero so that the module's defaulting applies).
S3  harness/cmd/c14 runs the pair (sigma, erase(sigma)) - or (sigma, new-list-from-the-start) for a modified rule with
    unchanged statistic parameters - on fresh module state under identical clocks and records both decision traces.
S4  RuleReuse_Trace.tla (TLC) demands that the traces agree step by step.
"""
import json, os, sys
import vlib
from vlib import main, write_ndjson, read_ndjson, MachineryError

NSTEPS = 8
# kind -> (module, statistic classes used for the shapes, modes)
KINDS = {
    'flow-throttle': ('flow', 'MCStatNone', ['erase']),
    'flow-warmup': ('flow', 'MCStat', ['erase']),
    'flow-standalone': ('flow', 'MCStat', ['erase']),
    'flow-standalone-mod': ('flow', 'MCStat', ['fromstart']),
    'cb-open': ('circuitbreaker', 'MCStat', ['erase']),
    'cb-mod': ('circuitbreaker', 'MCStat', ['erase', 'fromstart']),
    'hot-bucket': ('hotspot', 'MCStat', ['erase', 'fromstart']),
    'hot-bucket-nil': ('hotspot', 'MCStat', ['erase']),
    'hot-throttle': ('hotspot', 'MCStat', ['erase', 'fromstart']),
    'hot-conc': ('hotspot', 'MCStat', ['erase', 'fromstart']),
    # mode kept: the watched breaker rule is MODIFIED (only its retry timeout) at any position, also while its breaker is Open /
    # HalfOpen; no reference run - RuleReuse_Trace computes the decisions of a breaker that starts Closed on the kept error count
    'cb-trip-open': ('circuitbreaker', 'MCStat', ['kept']),
    'cb-trip-half': ('circuitbreaker', 'MCStat', ['kept']),
}
# mode kept: (old list, new list) - the statement's relation must hand X's statistics to Xr (checked by the trace spec)
KEPT_SHAPES = [(['X'], ['Xr']), (['X', 'N1'], ['Xr', 'N1']), (['N1', 'X'], ['Xr']), (['X'], ['N1', 'Xr']), (['X', 'S1'], ['Xr', 'S1']), (['X'], ['Xr', 'S1']),
               (['S1', 'X'], ['S1', 'N2', 'Xr'])]
# mode kept: reload positions per kind and spelling.  cb-trip-half holds its probe in flight at step 5: the old breaker is HalfOpen from
# position 5 on (with ProbeNum written out a HalfOpen breaker admits further requests, which would complete the probe: position 5 only)
KEPT_POS = {'cb-trip-open': {'unset': range(0, NSTEPS + 1), 'set': range(0, NSTEPS + 1)}, 'cb-trip-half': {'unset': [5, 6, 7, 8], 'set': [5]}}
# kind -> spellings of the optional fields the driver knows (harness/cmd/c14: kind.opts): 'set' = written out, 'unset' = left
# at zero so that the module's defaulting applies, 'part' = only some unset, 'nil' = hotspot SpecificItems nil
OPTS = {
    'flow-throttle': ['set', 'unset'], 'flow-warmup': ['set', 'unset', 'part'], 'flow-standalone': ['set'], 'flow-standalone-mod': ['set'],
    'cb-open': ['unset', 'set'], 'cb-mod': ['unset', 'set'], 'hot-bucket': ['unset', 'set'], 'hot-bucket-nil': ['unset', 'set'],
    'hot-throttle': ['unset', 'set', 'nil'], 'hot-conc': ['unset', 'set', 'nil'],
    'cb-trip-open': ['unset', 'set'], 'cb-trip-half': ['unset', 'set'],
}
P0S = ['whole', 'res']                          # entry point of the initial load
PATHS = ['whole', 'wholeOther', 'res']          # load path of the reload (RuleReuse: AllPaths)
ALLPATHS = '{"whole", "wholeOther", "res"}'


def entry(path):
    return 'res' if path == 'res' else 'whole'

# fromstart: the history up to the reload must be decided alike by X and Xm
FROMSTART_MAXPOS = {'flow-standalone-mod': 3, 'cb-mod': 1, 'hot-bucket': 8, 'hot-throttle': 8, 'hot-conc': 8}
# shapes that are always replayed at EVERY reload position through both load paths
SEED_SHAPES = [(['X'], ['X']), (['X'], ['S1', 'X']), (['X', 'S1'], ['S1', 'X']), (['X'], ['X', 'X']), (['X', 'N1'], ['N1', 'X']),
               (['X', 'S1'], ['X']), (['X'], ['X', 'S1']), (['X', 'S1'], ['S2', 'X']), (['N1', 'X'], ['S1', 'N2', 'X']), (['X', 'N1'], ['X', 'N2'])]


def mc_cfg(toks, stat, maxlen, maxtraffic, reuse='statement', invs='ReloadInvisible SamePresence ReuseRespected IdentityIsCallerTuple',
           defaulting='{}', paths=ALLPATHS):
    return """SPECIFICATION Spec
CONSTANTS
  Toks <- %s
  StatClass <- %s
  Watched = "X"
  MaxLen = %d
  MaxTraffic = %d
  Reuse = "%s"
  TripAge = 1
  Paths = %s
  Norm <- MCNorm
  Defaulting = %s
VIEW view
INVARIANTS %s
CHECK_DEADLOCK FALSE
""" % (toks, stat, maxlen, maxtraffic, reuse, paths, defaulting, invs)


def shapes_cfg(stat):
    return """SPECIFICATION ShSpec
CONSTANTS
  Toks <- MCToks6
  StatClass <- %s
  Watched = "X"
  MaxLen = 3
  MaxTraffic = 0
  Reuse = "statement"
  TripAge = 1
  Paths = {"whole", "wholeOther", "res"}
  Norm <- MCNorm
  Defaulting = {}
INVARIANTS ShPrint
CHECK_DEADLOCK FALSE
""" % stat


def pair(tr, kind, mode, old, new, pos, p0, path, opt):
    return dict(op='pair', tr=tr, kind=kind, mode=mode, old=old, new=new, pos=pos, p0=p0, path=path, opt=opt)


def run_and_validate(c, drv, pairs, tag):
    """returns (mismatches [(tr, expected-dict)], trace path, per-trace info)"""
    sp = os.path.join(c.scratch, tag + '.scn.ndjson')
    tp = os.path.join(c.scratch, tag + '.trace.ndjson')
    write_ndjson(sp, pairs)
    c.run([drv, sp, tp], timeout=900)
    nlines = sum(1 for _ in open(tp))
    mism, consumed, r = c.validate('RuleReuse_Trace', tp, nlines)
    if consumed != nlines:
        raise MachineryError('%s: trace validation consumed %d of %d lines (malformed scenario?)\n%s' % (tag, consumed, nlines, r.out[-1500:]))
    c.cov['traces_validated_against_impl'] += len(pairs)
    c.cov['evaluations'] += nlines
    c.log('S3/S4 %s: %d pairs of runs, %d events validated in %.0fs, %d mismatching pairs' % (tag, len(pairs), nlines, r.wall, len(mism)))
    return [(trn, json.loads(exp)) for trn, ln, exp in mism], tp


def signature(exp, shape_of):
    """minimal failing pattern: known-finding key + text"""
    mod, kind, mode = exp['mod'], exp['kind'], exp['mode']
    sh = shape_of.get((KINDS[kind][1], mode, json.dumps(exp['old']), json.dumps(exp['new'])))
    if mode == 'erase' and sh is not None:
        xs = [i for i, t in enumerate(exp['new']) if t == 'X']
        stolen = [i for i in xs if sh['stmt'][i]['c'] != 0 and sh['greedy'][i]['c'] != sh['stmt'][i]['c']]
        if stolen:
            return ('C14/%s/greedy-reuse/earlier-stat-compatible-new-rule-takes-controller-of-unchanged-rule' % mod,
                    '%s: a new rule that merely has the same statistic parameters and precedes the unchanged rule in the new list consumes the '
                    "unchanged rule's old controller (calculateReuseIndexFor serves new rules in order): the unchanged rule is rebuilt from scratch" % mod)
    return generic_signature(exp)


def generic_signature(exp):
    mod, kind, mode = exp['mod'], exp['kind'], exp['mode']
    if kind == 'hot-bucket-nil':
        return ('C14/hotspot/nil-specific-items/rule-not-equal-to-itself-after-first-load',
                'hotspot: a rule with nil SpecificItems never Equals itself after the first load (the load stored an empty map into it): on a reload it is '
                'rebuilt and, when reordered, takes over the statistics of another rule')
    if mode == 'kept':
        return ('C14/%s/%s/modified-rule-loses-statistics' % (mod, kind),
                '%s (%s): a rule modified without touching its statistic parameters (only the retry timeout) does not keep its accumulated statistics: the '
                'regenerated breaker does not decide like a Closed breaker on the error count recorded before the reload' % (mod, kind))
    if mode == 'fromstart':
        return ('C14/%s/%s/modified-rule-loses-statistics' % (mod, kind), '%s (%s): a modified rule with unchanged statistic parameters does not keep its statistics' % (mod, kind))
    return ('C14/%s/%s/reload-visible-for-unchanged-rule' % (mod, kind), '%s (%s): a reload is visible for an unchanged rule' % (mod, kind))


def binding_selftest(c, tp, bad):
    """make run A more generous than run B at one step of good, non-relaxed pairs: every one must be rejected"""
    lines = [json.loads(l) for l in open(tp)]
    out, want, n, nk, cur, armed, mode = [], set(), 0, 0, None, False, None
    for e in lines:
        if e['op'] == 'new':
            if n >= 60 and (nk >= 30 or e['mode'] != 'kept'):
                break
            cur, mode = e['tr'], e['mode']
            dup = e['mode'] == 'erase' and e['new'].count('X') > e['old'].count('X')
            armed = cur not in bad and not dup and (nk < 30 if mode == 'kept' else n < 60)
            skip = c.rng.randint(min(e['pos'], NSTEPS - 1) if e['mode'] in ('fromstart', 'kept') else 0, NSTEPS - 1)
        elif armed and e['i'] > skip and e['a']['d'] in 'PB':
            if mode == 'kept':          # no reference run: the recorded decision itself is flipped (after the reload)
                e['a'] = dict(d='P' if e['a']['d'] == 'B' else 'B', w=0)
                nk += 1
            elif e['a']['d'] == 'B':
                e['a'] = dict(d='P', w=0)
                n += 1
            else:
                e['b'] = dict(d='B', w=0)
                n += 1
            armed = False
            want.add(cur)
        out.append(e)
    cp = os.path.join(c.scratch, 'corrupt.ndjson')
    write_ndjson(cp, out)
    mism, consumed, r = c.validate('RuleReuse_Trace', cp, len(out))
    got = {m[0] for m in mism} - set(bad)
    if got != want or not want:
        raise MachineryError('binding self-test failed: corrupted pairs %s, rejected %s' % (sorted(want), sorted(got)))
    if nk == 0:
        raise MachineryError('binding self-test: no kept-statistics pair corrupted')
    c.cov['binding_selftest'] = '%d corrupted pairs (%d of mode kept), all rejected' % (len(want), nk)
    c.log('binding self-test: %d corrupted pairs, all rejected by RuleReuse_Trace' % len(want))


def sensitive(tp):
    """pairs whose reference run refuses / delays a request after the reload position: lost state would show"""
    n, cur, hit = 0, None, False
    keys = set()
    for l in open(tp):
        e = json.loads(l)
        if e['op'] == 'new':
            cur, hit = e, False
        elif not hit and e['i'] > cur['pos'] and (e['b']['d'] == 'B' or e['b']['w'] > 0) and cur['ld']:
            hit = True
            keys.add(json.dumps([cur['kind'], cur['mode'], cur['old'], cur['new'], cur['pos'], cur['p0'], cur['path'], cur['opt']]))
    return keys


def reached_stats(tp, shape_of):
    """(pairs whose reload got past the module's unchanged-detection, pairs where the module's answer differs from what
    RuleReuse's Skipped says for that shape and load path - TLC's `skip' of RuleReuse_Shapes)"""
    n, odd = 0, []
    for l in open(tp):
        e = json.loads(l)
        if e['op'] == 'new':
            n += 1 if e['ld'] else 0
            sh = shape_of.get((KINDS[e['kind']][1], e['mode'], json.dumps(e['old']), json.dumps(e['new'])))
            if sh is not None and sh['skip'][e['path']] == e['ld']:
                odd.append([e['kind'], e['old'], e['new'], e['p0'], e['path'], e['opt'], e['ld']])
    return n, odd


def check(c, tier, replay):
    drv = c.build('c14')
    thorough = tier == 'thorough'
    # S2 first (cheap): the shapes and what the statement / the greedy algorithm do with them
    shapes, shape_of = {}, {}
    for stat in ('MCStat', 'MCStatNone'):
        r = c.tlc('RuleReuse_Shapes', cfg_text=shapes_cfg(stat), workers=4, timeout=600, count=False)
        if r.error or not r.completed:
            raise MachineryError('shape generation failed: %s\n%s' % (r.error, r.out[-1500:]))
        shapes[stat] = r.json_prints()
        for sh in shapes[stat]:
            shape_of[(stat, sh['mode'], json.dumps(sh['old']), json.dumps(sh['new']))] = sh
        c.log('S2 RuleReuse_Shapes/%s: %d reload shapes, %d must be invisible, %d where the greedy algorithm departs from the statement for X' % (
            stat, len(shapes[stat]), sum(1 for s in shapes[stat] if s['inv']),
            sum(1 for s in shapes[stat] if s['mode'] == 'erase' and any(t == 'X' and s['stmt'][i]['c'] and s['greedy'][i]['c'] != s['stmt'][i]['c'] for i, t in enumerate(s['new'])))))
    if replay:
        p = read_ndjson(replay)
        mism, _ = run_and_validate(c, drv, p, 'replay')
        c.cov['states'] = c.cov['transitions'] = 1
        c.sample(p[:3])
        for trn, exp in mism:
            key, what = signature(exp, shape_of)
            if c.is_known(key):
                c.known(key, c.kf[key]['description'])
            else:
                c.violation(what + ' ' + json.dumps(exp), replay)
        return
    # S1 ---------------------------------------------------------------------------------
    # (lists <= 3 without traffic check the structural clauses NoStatWasted / EqualKeepsController for every pair of lists)
    # every Reload action takes its load path as a parameter (per-resource / whole-set / whole-set with another resource changed)
    runs = [('MCToks', 'MCStat', 2, 2, None), ('MCToks', 'MCStatNone', 2, 2, None), ('MCToks', 'MCStat', 3, 0, None),
            # Xe = X with its defaults spelled out: a different rule for the statement; + the entry point must be irrelevant
            ('MCToksD', 'MCStat', 2, 2, 'ReloadInvisible SamePresence ReuseRespected IdentityIsCallerTuple EntryPointAgnostic')]
    if thorough:
        runs += [('MCToks3', 'MCStat', 3, 1, None), ('MCToks3', 'MCStat', 3, 2, None)]      # ~1 min and ~10 min
    for toks, stat, ml, mt, invs in runs:
        r = c.model_check('RuleReuse_MC', cfg_text=mc_cfg(toks, stat, ml, mt, **(dict(invs=invs) if invs else {})), workers=8, timeout=3000)
        if not r.completed:
            c.inconclusive.append('RuleReuse.tla: %s violated with the reuse relation of the statement' % r.violated)
    c.cov['exhaustive'] = True
    caught = {}
    for alg in ('greedy', 'byPosition', 'none'):
        r = c.tlc('RuleReuse_MC', cfg_text=mc_cfg('MCToks', 'MCStat', 2, 2, reuse=alg, invs='ReloadInvisible'), workers=4, timeout=600, count=False)
        if r.violated != 'ReloadInvisible':
            raise MachineryError('vacuity self-test: reuse algorithm %s does not violate ReloadInvisible (%s)' % (alg, r.error or r.violated))
        caught[alg] = r.violated
    # statistics of an old rule are taken over only if its controller is not tripped (breaker Open / HalfOpen) at the reload
    r = c.tlc('RuleReuse_MC', cfg_text=mc_cfg('MCToks', 'MCStat', 2, 2, reuse='closedOnly', invs='ReuseRespected'), workers=4, timeout=600, count=False)
    if r.violated != 'ReuseRespected':
        raise MachineryError('vacuity self-test: reuse algorithm closedOnly does not violate ReuseRespected (%s)' % (r.error or r.violated))
    caught['closedOnly'] = r.violated
    # an entry point that stores / compares the defaulted copy of a rule instead of the caller's tuple
    for dflt in ('{"whole"}', '{"res"}'):
        for inv in ('ReloadInvisible', 'EntryPointAgnostic'):
            r = c.tlc('RuleReuse_MC', cfg_text=mc_cfg('MCToksD', 'MCStat', 2, 2, invs=inv, defaulting=dflt), workers=4, timeout=600, count=False)
            if r.violated != inv:
                raise MachineryError('vacuity self-test: Defaulting = %s does not violate %s (%s)' % (dflt, inv, r.error or r.violated))
            caught['defaulting=%s/%s' % (dflt.strip('{}').strip('"'), inv)] = r.violated
    c.cov['spec_mutants_caught'] = caught
    c.log('vacuity self-test: spec mutants that violate their invariant in TLC: %s' % sorted(caught))
    # scenarios --------------------------------------------------------------------------
    pairs, tr = [], 0
    per_kind = 250 if not thorough else 1500
    for kind, (mod, stat, modes) in KINDS.items():        # (first, so that the binding self-test of the first chunk sees them)
        if 'kept' in modes:
            for old, new in KEPT_SHAPES:
                for opt in OPTS[kind]:
                    for pos in KEPT_POS[kind][opt]:
                        for p0 in P0S:
                            for path in PATHS:
                                tr += 1
                                pairs.append(pair(tr, kind, 'kept', old, new, pos, p0, path, opt))
    for kind, (mod, stat, modes) in KINDS.items():
        opts = OPTS[kind]
        if 'erase' in modes:
            # the seed shapes: reload inserted at every position, every combination of the entry point of the initial load
            # and the load path of the reload, every spelling of the optional fields
            for old, new in SEED_SHAPES:
                for pos in range(0, NSTEPS + 1):
                    for p0 in P0S:
                        for path in PATHS:
                            for opt in opts:
                                tr += 1
                                pairs.append(pair(tr, kind, 'erase', old, new, pos, p0, path, opt))
            cand = [s for s in shapes[stat] if s['mode'] == 'erase' and s['inv']]
            for sh in c.rng.sample(cand, min(per_kind, len(cand))):
                tr += 1
                pairs.append(pair(tr, kind, 'erase', sh['old'], sh['new'], c.rng.randint(1, NSTEPS - 1), c.rng.choice(P0S), c.rng.choice(PATHS), c.rng.choice(opts)))
        if 'fromstart' in modes:
            cand = [s for s in shapes[stat] if s['mode'] == 'fromstart']
            for sh in c.rng.sample(cand, min(per_kind // 3, len(cand))):
                tr += 1
                pairs.append(pair(tr, kind, 'fromstart', sh['old'], sh['new'], c.rng.randint(0, FROMSTART_MAXPOS[kind]), c.rng.choice(P0S), c.rng.choice(PATHS), c.rng.choice(opts)))
            for pos in range(0, FROMSTART_MAXPOS[kind] + 1):
                for p0 in P0S:
                    for path in PATHS:
                        for opt in opts:
                            tr += 1
                            pairs.append(pair(tr, kind, 'fromstart', ['X'], ['Xm'], pos, p0, path, opt))
    # S3 + S4 ----------------------------------------------------------------------------
    groups, nontriv, recs = {}, set(), {}
    by_tr = {p['tr']: p for p in pairs}
    reached, odd = 0, []
    for i in range(0, len(pairs), 6000):
        part = pairs[i:i + 6000]
        mism, tp = run_and_validate(c, drv, part, 'pairs%d' % i)
        if i == 0:
            binding_selftest(c, tp, {m[0] for m in mism})
        nontriv |= sensitive(tp)
        rn, ro = reached_stats(tp, shape_of)
        reached += rn
        odd += ro
        c.cov['conformance_mismatches'] += len(mism)
        for trn, exp in mism:
            key, what = signature(exp, shape_of)
            recs.setdefault(key, []).append((exp, by_tr[trn]))
    # the greedy explanation (an earlier stat-compatible new rule takes the controller) predicts the failure whatever entry
    # points and spelling of the optional fields a history uses: where the failing pairs of such a group are confined to
    # histories that mix the entry points, or to some spellings, the explanation does not fit - they join the plain groups
    for key in sorted(recs):
        if '/greedy-reuse/' in key:
            rs = recs[key]
            mixed_only = all(entry(p['path']) != p['p0'] for _, p in rs)
            some_opts = set(p['opt'] for _, p in rs) != set(o for _, p in rs for o in OPTS[p['kind']])
            if mixed_only or some_opts:
                del recs[key]
                for exp, p in rs:
                    recs.setdefault(generic_signature(exp)[0], []).append((exp, p))
    for key in recs:
        for exp, p in recs[key]:
            raw, what = signature(exp, shape_of)
            if raw != key:
                what = generic_signature(exp)[1]
            g = groups.setdefault(key, dict(what=what, n=0, best=None, exp=None, kinds=set(), combos=set(), opts=set(), raw=set()))
            g['n'] += 1
            g['raw'].add(raw)
            g['kinds'].add(exp['kind'])
            g['combos'].add((p['p0'], p['path']))
            g['opts'].add(p['opt'])
            size = (len(p['old']) + len(p['new']), p['pos'])
            if g['best'] is None or size < g['size']:
                g['best'], g['size'], g['exp'] = p, size, exp
    # confirm the minimal pair of every group twice in fresh processes, report each group once
    keys = sorted(groups)
    confirmed = {k: 0 for k in keys}
    for rnd in range(2):
        if not keys:
            break
        items = [dict(groups[k]['best'], tr=j + 1) for j, k in enumerate(keys)]
        m2, _ = run_and_validate(c, drv, items, 'confirm%d' % rnd)
        for trn, exp in m2:
            if signature(exp, shape_of)[0] in groups[keys[trn - 1]]['raw']:
                confirmed[keys[trn - 1]] += 1
    for k in keys:
        g = groups[k]
        if confirmed[k] < 2:
            c.inconclusive.append('mismatch %s did not reproduce (%d/2)' % (k, confirmed[k]))
            continue
        rp = c.save_replay(k.replace('C14/', '').replace('/', '_') + '.ndjson', [g['best']])
        e = g['exp']
        # which part of the scenario space the failures are confined to (description only, never the verdict)
        where = []
        if all(entry(pth) != p0 for p0, pth in g['combos']):
            where.append('ONLY in histories that MIX the entry points (initial load and reload through different ones: %s)' % sorted('%s->%s' % cb for cb in g['combos']))
        elif all(entry(pth) == p0 for p0, pth in g['combos']):
            where.append('only in histories that stay on one entry point (%s)' % sorted('%s->%s' % cb for cb in g['combos']))
        all_opts = set(o for kd in g['kinds'] for o in OPTS[kd])
        if g['opts'] != all_opts:
            where.append('only with the optional fields spelled %s (of %s)' % (sorted(g['opts']), sorted(all_opts)))
        what = '%s  [%d failing pairs, kinds %s%s; minimal: kind %s (optional fields %s), %s loaded (%s) -> %s reloaded (%s) before step %d: step %d decided %s with the reload, %s without]' % (
            g['what'], g['n'], sorted(g['kinds']), ''.join('; ' + w for w in where), e['kind'], e['opt'], e['old'], e['p0'], e['new'], e['path'], e['pos'] + 1,
            e['step'], json.dumps(e['a']), json.dumps(e['b']))
        if e['mode'] == 'kept':
            what = what.replace(' without]', ' is what a breaker that starts Closed on the error count kept from before the reload (%s) decides]' % json.dumps(e.get('breaker')))
        c.cov.setdefault('failing_groups', {})[k] = dict(pairs=g['n'], kinds=sorted(g['kinds']), minimal=g['best'], observed=e,
                                                         entry_points=sorted('%s->%s' % cb for cb in g['combos']), opts=sorted(g['opts']))
        if c.is_known(k):
            c.known(k, c.kf[k]['description'])
        else:
            c.violation(what, rp)
    c.cov['distinct_nontrivial'] = len(nontriv)
    c.cov['per_kind'] = {k: sum(1 for p in pairs if p['kind'] == k) for k in KINDS}
    c.cov['pairs_mixing_entry_points'] = sum(1 for p in pairs if entry(p['path']) != p['p0'])
    c.cov['pairs_per_spelling'] = {o: sum(1 for p in pairs if p['opt'] == o) for o in sorted(set(p['opt'] for p in pairs))}
    c.cov['reloads_past_unchanged_detection'] = reached
    c.cov['unchanged_detection_differs_from_spec'] = dict(n=len(odd), first=odd[:3])
    c.log('%d pairs: %d mix the entry points, %d reloads got past the unchanged-detection (%d where the module and RuleReuse.Skipped disagree), spellings %s' % (
        len(pairs), c.cov['pairs_mixing_entry_points'], reached, len(odd), c.cov['pairs_per_spelling']))
    c.cov['rule'] = ('scenario = pair of runs (with reload / reference) of one (kind, mode, old list, new list, reload position, entry point of the initial '
                     'load, load path of the reload, spelling of the optional fields); shapes come from RuleReuse_Shapes (TLC): %d seed shapes at every position x '
                     'entry points x spellings + a seeded sample of all %d shapes; non-trivial = distinct pair whose reload got past the unchanged-detection '
                     'and whose reference run refuses or delays a request AFTER the reload position (so lost state would change a decision)'
                     % (len(SEED_SHAPES), len(shapes['MCStat'])))
    c.sample(pairs[1])
    c.sample(pairs[len(pairs) // 2])
    c.sample(pairs[-1])
    c.assumptions += ['the other rules of a list (S1, S2: same statistic parameters as the watched rule; N1, N2: different ones) have thresholds that never '
                      'refuse the history, so the decision trace of the resource is that of the watched rule',
                      'when a reload adds copies of the unchanged rule the run with the reload may refuse or delay more, never less; traces are compared up to '
                      'the first such parting',
                      'modified-rule scenarios (mode fromstart) use histories that X and Xm decide alike before the reload (checked by the trace spec)',
                      'both runs of a pair start from cleared modules on fresh resource names at the same virtual time; sleeps are recorded, not executed',
                      'runtime state is abstracted to an age (number of absorbed events) in RuleReuse.tla; TLC is exhaustive for the bounded universes in tlc_runs']


main('C14', check)
