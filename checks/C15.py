"""C15 - public API is race free and rule switches are atomic under live traffic.

Second sentence (decided by the TLA+ machinery):
S1  TLC checks spec/RuleSwitch.tla (loader swapping the list under the write lock vs. requests obtaining it under the
    read lock and evaluating outside) for OldOrNew over all interleavings; the in-place-update mutant (Swap = FALSE)
    must violate it (vacuity guard).
    First use: the same model with Fresh = TRUE (the resource has no statistic object and no rules; first requests and
    the loader create it on demand: look up, write section, look again, create) is checked for Enforced / StatAgrees /
    OneObject (after quiescence P sequential probes are admitted iff admitted-so-far + 1 <= threshold in force, the
    registered object shows every admitted request) for rules that read the loader's object (flow) and the request's
    object (isolation); the mutant Recheck = FALSE ("two creators both install") must violate Enforced and StatAgrees.
S3  harness/cmd/c15, built with -race, runs live traffic on every rule module while loaders / clearers / getters of
    every module and the statistics getters churn; flow and isolation use the version-identifying rule lists of
    RuleSwitch.tla.
S4  spec/RuleSwitch_Trace.tla (TLC) judges every recorded request: decided entirely by one version current between its
    invocation and return; requests on a resource whose rules never change are never disturbed; no panic.
    First-use rounds (second phase of the driver: fresh resource per round, first requests and rule loads released from a
    spin barrier, then sequential probes under a frozen clock): every probe decision and every statistics getter value
    is the one the spec computes from the requests made (Enforced / StatAgrees).
First sentence (data races, panics, deadlock): NOT decidable by TLC - the Go race detector judges the executions the
conformance driver produces (level: exploration, DESIGN section 8).  A race report, an escaped panic or a watchdog
timeout (reproduced) in those runs is reported as a violation.
"""
import json, os, re, subprocess, shutil
from vlib import main, write_ndjson, read_ndjson, MachineryError, goenv

CFG = ('SPECIFICATION Spec\nCONSTANTS\n K = %d\n NR = %d\n Swap = %s\n Fresh = FALSE\n Recheck = TRUE\n Bind = "load"\n T = 1\n P = 0\n'
       'INVARIANT OldOrNew\nCHECK_DEADLOCK FALSE\n')
# first use: the resource has no statistic object and no rules; (K, NR, Recheck, Bind, T, P, invariants)
CFG_FU = ('SPECIFICATION Spec\nCONSTANTS\n K = %d\n NR = %d\n Swap = TRUE\n Fresh = TRUE\n Recheck = %s\n Bind = "%s"\n T = %d\n P = %d\n'
          'INVARIANTS %s\nCHECK_DEADLOCK FALSE\n')
FU_INV = 'Enforced StatAgrees OneObject'


def race_signatures(stderr):
    """one signature per reported race: the first library frame of each of the two conflicting accesses"""
    sigs = []
    for block in stderr.split('WARNING: DATA RACE')[1:]:
        block = block.split('==================')[0]
        parts = re.split(r'\n(?=Previous (?:read|write) at |Goroutine \d+ )', block)
        tops = []
        for part in parts[:2]:
            frames = re.findall(r'^  ([\w./()*\-]+)\(\)\s*$', part, re.M)
            lib = [f for f in frames if 'sentinel-golang' in f]
            if lib:
                tops.append(lib[0].split('sentinel-golang/')[-1])
            elif frames:
                tops.append(frames[0])
        if tops:
            sigs.append(' | '.join(sorted(set(tops))))
    return sigs


def run_driver(c, drv, seed, nver, ntraffic, tag, nfirst=0):
    tp = os.path.join(c.scratch, 'trace-%s.ndjson' % tag)
    env = goenv()
    env['GORACE'] = 'exitcode=66 halt_on_error=0'
    try:
        p = subprocess.run([drv, tp, str(seed), str(nver), str(ntraffic), str(nfirst)], env=env, stdout=subprocess.PIPE, stderr=subprocess.PIPE, text=True, timeout=240)
    except subprocess.TimeoutExpired:
        return tp, 4, 'WATCHDOG: timeout', []
    return tp, p.returncode, p.stderr, race_signatures(p.stderr)


def validate(c, tp):
    nlines = sum(1 for _ in open(tp))
    mism, consumed, r = c.validate('RuleSwitch_Trace', tp, nlines, timeout=900)
    if consumed != nlines:
        raise MachineryError('trace validation consumed %d of %d lines\n%s' % (consumed, nlines, r.out[-1500:]))
    return mism, nlines


def binding_selftest(c, tp):
    full = [json.loads(l) for l in open(tp)]
    # a reduced (still well-formed) copy keeps the five validations short: all loads, the first requests, the first rounds
    lines, nreq, nfu = [], 0, 0
    for e in full:
        if e['op'] == 'req':
            nreq += 1
            if nreq > 2500:
                continue
        elif e['op'] == 'fu':
            nfu += 1
        if e['op'] in ('fu', 'probe', 'reload', 'release', 'stat') and nfu > 60:
            continue
        lines.append(e)
    reqs = [i for i, e in enumerate(lines) if e['op'] == 'req']
    nver = lines[0]['nver']
    probes = [i for i, e in enumerate(lines) if e['op'] == 'probe' and not e['pass']]
    stats = [i for i, e in enumerate(lines) if e['op'] == 'stat' and e['conc'] > 0]
    bad = 0
    for variant in range(5):
        out = [dict(e) for e in lines]
        i = reqs[(len(reqs) // 3) * (variant % 3) + 1]
        if variant == 3:
            out[probes[len(probes) // 2]]['pass'] = True    # a request beyond the threshold in force is admitted
        elif variant == 4:
            out[stats[len(stats) // 2]]['conc'] -= 1        # the statistics getters lose a request in flight
        elif variant == 0:
            out[i]['pass'] = True                       # a request that saw a mixture passes
        elif variant == 1:
            out[i]['marker'] = nver + 5                 # decided by a version that never existed
        else:
            j = next(k for k in reqs if out[k]['res'] in ('f_r2', 'i_r2', 'p_r2'))
            out[j]['marker'] = 3                        # a decision on the untouched resource was disturbed
        cp = os.path.join(c.scratch, 'corrupt%d.ndjson' % variant)
        write_ndjson(cp, out)
        mism, consumed, r = c.validate('RuleSwitch_Trace', cp, len(out), timeout=900)
        bad += 1 if mism else 0
    if bad != 5:
        raise MachineryError('binding self-test failed: 5 corrupted traces, %d rejected' % bad)
    c.cov['binding_selftest'] = ('5 corrupted traces (passing request, unknown version, disturbed constant resource, first use: probe admitted beyond '
                                 'the threshold, first use: getter loses a request in flight), all rejected')
    c.log('binding self-test: 5 corrupted traces, all rejected')


def check(c, tier, replay):
    if replay:
        if replay.endswith('.ndjson'):
            mism, n = validate(c, replay)
            if mism:
                c.violation('recorded execution violates the atomic-switch clause: %s' % mism[0][2][:500], replay)
        else:
            sigs = race_signatures(open(replay).read())
            for s in sigs:
                key = 'C15/race/' + s
                if c.is_known(key):
                    c.known(key, c.kf[key]['description'])
                else:
                    c.violation('data race reported by the race detector: ' + s, replay)
        c.cov['evaluations'], c.cov['distinct_nontrivial'], c.cov['rule'] = 1, 2, 'replay of a recorded execution'
        c.sample(replay)
        return
    thorough = tier == 'thorough'
    # S1 ---------------------------------------------------------------------------------------
    for k, nr in ([(3, 2)] if not thorough else [(3, 2), (4, 2), (3, 3)]):
        r = c.model_check('RuleSwitch', cfg_text=CFG % (k, nr, 'TRUE'), workers=8, timeout=1800)
        if not r.completed:
            c.inconclusive.append('RuleSwitch.tla violates %s (K=%d NR=%d)' % (r.violated, k, nr))
    r = c.tlc('RuleSwitch', cfg_text=CFG % (3, 2, 'FALSE'), workers=4, timeout=600, count=False)
    if r.violated != 'OldOrNew':
        raise MachineryError('vacuity guard: the in-place-update mutant of RuleSwitch must violate OldOrNew, got %s' % (r.violated or r.error))
    c.cov['spec_mutant'] = 'Swap=FALSE (in-place update of the list cells) violates OldOrNew'
    # first use: statistic object created on demand by racing first requests / the loader
    fu = [(2, 2, 'load', 2, 4), (2, 2, 'req', 2, 4)] + ([(1, 3, 'load', 2, 4), (1, 3, 'req', 2, 4), (2, 3, 'load', 2, 3)] if thorough else [])
    for k, nr, bind, t, p in fu:
        r = c.model_check('RuleSwitch', cfg_text=CFG_FU % (k, nr, 'TRUE', bind, t, p, FU_INV), workers=8, timeout=1800)
        if not r.completed:
            c.inconclusive.append('RuleSwitch.tla (first use) violates %s (K=%d NR=%d Bind=%s)' % (r.violated, k, nr, bind))
    for bind, inv in (('load', 'Enforced'), ('req', 'Enforced'), ('load', 'StatAgrees')):
        r = c.tlc('RuleSwitch', cfg_text=CFG_FU % (2, 2, 'FALSE', bind, 2, 4, inv), workers=4, timeout=600, count=False)
        if r.violated != inv:
            raise MachineryError('vacuity guard: the mutant "two creators both install" (Recheck=FALSE, Bind=%s) must violate %s, got %s'
                                 % (bind, inv, r.violated or r.error))
    c.cov['spec_mutant_first_use'] = 'Recheck=FALSE (two creators both install a statistic object) violates Enforced (Bind=load, Bind=req) and StatAgrees'
    # S3 ---------------------------------------------------------------------------------------
    drv = c.build('c15', race=True)
    runs = 3 if not thorough else 20
    nver, ntraffic = (1500, 8) if not thorough else (6000, 12)
    nfirst = 250 if not thorough else 600
    total_req = racing = lines = rounds = probes = 0
    seen_sigs = {}
    first = True
    for i in range(runs):
        seed = c.seed * 100 + i
        tp, rc, err, sigs = run_driver(c, drv, seed, nver, ntraffic, str(i), nfirst)
        if rc == 4 or 'WATCHDOG' in err:
            # an API call that never returns: reproduce once before calling it a deadlock
            tp2, rc2, err2, _ = run_driver(c, drv, seed + 7, nver, ntraffic, str(i) + 'b', nfirst)
            if rc2 == 4:
                rp = c.save_replay('watchdog-%d.txt' % seed, [err[-3000:], err2[-3000:]])
                c.violation('public API calls did not return within the watchdog limit in two runs (deadlock)', rp)
            else:
                c.inconclusive.append('one run hit the watchdog but it did not reproduce')
            continue
        if rc not in (0, 5, 66):
            raise MachineryError('driver failed rc=%d: %s' % (rc, err[-2000:]))
        for s in sigs:
            if s not in seen_sigs:
                seen_sigs[s] = c.save_replay('race-%d-%d.txt' % (seed, len(seen_sigs)), [err[:200000]])
        end = json.loads(open(tp).read().splitlines()[-1])
        total_req += end['requests']
        racing += end['racing']
        rounds += end.get('rounds', 0)
        probes += sum(1 for x in open(tp) if '"op":"probe"' in x)
        # S4 -----------------------------------------------------------------------------------
        mism, n = validate(c, tp)
        lines += n
        c.cov['traces_validated_against_impl'] += 1
        c.log('run %d (seed %d): %d requests (%d racing a rule switch), %d loads, %d first-use rounds, races reported: %d, trace %d events, rejected: %d'
              % (i, seed, end['requests'], end['racing'], end['loads'], end.get('rounds', 0), len(sigs), n, len(mism)))
        for tr, line, exp in mism[:3]:
            rp = c.save_replay('switch-%d.ndjson' % seed, open(tp).read().splitlines())
            c.violation('real execution violates C15 (rule switch not atomic / rules or statistics wrong after racing first use / panic): %s' % exp[:500], rp)
        if first and not mism:
            binding_selftest(c, tp)
            first = False
            c.sample([json.loads(x) for x in open(tp).read().splitlines()[:4]])
    for s, rp in sorted(seen_sigs.items()):
        key = 'C15/race/' + s
        if c.is_known(key):
            c.known(key, c.kf[key]['description'])
        else:
            c.violation('data race reported by the Go race detector between: ' + s, rp)
    c.cov['evaluations'] = total_req + probes
    c.cov['distinct_nontrivial'] = racing + rounds
    c.cov['first_use_rounds'] = rounds
    c.cov['first_use_probes'] = probes
    c.cov['race_signatures'] = sorted(seen_sigs)
    c.cov['rule'] = ('one evaluation = one Entry call of the free-running traffic (built with -race, %d runs x %d rule versions per module, %d traffic '
                     'goroutines + 2 churn goroutines per module + readers); non-trivial = requests on a churned resource whose [invocation, return] '
                     'overlaps a rule load of its module (counted by the driver from the atomic sequence numbers), plus one per first-use round '
                     '(%d per run: 2-5 first requests of a never-seen resource and 0-2 rule loads for it released from a spin barrier, then sequential '
                     'probes and statistics getters judged exactly)' % (runs, nver, ntraffic, nfirst))
    c.assumptions += ['data-race freedom is judged by the Go race detector on the executions this driver produces (sampled schedules, not exhaustive)',
                      'version-identifying rule lists for flow, isolation and hotspot; circuit breaker, system and outlier are exercised for races / panics / deadlock only',
                      'sequence numbers are drawn from one atomic counter before a call and after its return',
                      'first-use rounds run under a frozen virtual clock (all requests of a round in one statistic window); what the racing '
                      'requests themselves decide is not judged beyond "rejected only by a threshold that was being loaded"']


main('C15', check, level='exploration')
