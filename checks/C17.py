"""C17 - the metric log is searchable, bounded, and survives truncation at any byte.

S1  TLC checks MetricLog.tla exhaustively: the implementation-shaped writer/searcher with all four documented
    repairs (Fixes = AllFixes) gives, in every reachable state and for every query, the answer the property
    demands (fresh searcher and long-lived searcher with whatever cache earlier queries left; bounded file
    count; truncation classes).  Then one run per repair switched OFF: TLC must find a design-level
    counterexample (the invariants are not vacuous) and prints it as a LEAD.
S2  scenarios: (a) the leads, (b) one per transition of a small instance of the same spec (seeded sample),
    (c) TLC random simulation of a larger instance, (d) seeded random histories with realistic sizes, varied
    line widths, day rolls, rejected writes, several searcher instances, truncation by class and - for a part
    of them - at EVERY byte offset of the last data file and of its index file.
S3  harness/cmd/c17 replays them on the real code in a private temporary directory per scenario.
S4  MetricLog_Trace.tla (TLC) judges every recorded answer against the property-level reference and compares
    the implementation-shaped model (files, index entries, answers) with what was observed (DRIFT, counted only).
    The leads decide which variant of the implementation layer describes the code under test (calibration).
"""
import json, os, sys
import vlib
from vlib import main, write_ndjson, read_ndjson, MachineryError

ALL_FIXES = ['cache', 'offreset', 'headidx', 'torn']
# defect class reported by MetricLog_Trace -> known-finding key
KEYS = {'cache': 'C17/repeat-query/cache-wrong-file',
        'torn': 'C17/torn-line/8-fields-parsed',
        'create': 'C17/no-idx-entry/creation-second',
        'roll': 'C17/no-idx-entry/after-roll-same-second'}
WHAT = {'cache': 'the answer of a long-lived searcher depends on its earlier queries (position cache applied to the wrong file / wrong index offset)',
        'torn': 'a line torn after its 8th field is returned as an item that was never written',
        'create': 'items stamped with the second in which the writer was created have no index entry and are never found',
        'roll': 'lines at the head of a file (second continuing after a size roll / first second after a day roll) have no index entry '
                'in their own file and cannot be found once the previous file is gone',
        'bound': 'more data files than the configured maximum',
        'other': 'search answer differs from the accepted items of the retained files (missing / foreign / misordered / duplicated item, error or panic)'}
W = 60          # width of a fixed-format line (13-digit time stamp, 2-letter resource, 3+1+1+1+4+2+2+1 digits)
DAY = 86400


def fx_set(fx):
    return '{' + ', '.join('"%s"' % x for x in fx) + '}'


def mc_cfg(fixes, maxfiles=2, maxsize=2, daylen=4, createsecs='{1, 3}', maxsec=5, batches='MCBatches1', maxwrites=4,
           maxqueries=2, withcut=True, csw=True, invariants='TypeOK BoundOK RetainedOK FreshOK CachedOK', extra=''):
    return """SPECIFICATION Spec
CONSTANTS
  MaxFiles = %d
  MaxSize = %d
  DayLen = %d
  CreateSecs = %s
  MaxSec = %d
  Batches <- %s
  MaxWrites = %d
  MaxQueries = %d
  Fixes = %s
  WithCut = %s
  CreateSecWrites = %s
VIEW view
%s
CHECK_DEADLOCK FALSE
%s""" % (maxfiles, maxsize, daylen, createsecs, maxsec, batches, maxwrites, maxqueries, fx_set(fixes),
         'TRUE' if withcut else 'FALSE', 'TRUE' if csw else 'FALSE', ('INVARIANTS ' + invariants) if invariants else '', extra)


# ------------------------------------------------------------------------------------------------ scenarios
class Serial:
    def __init__(self):
        self.n = 100

    def next(self):
        self.n += 1
        return self.n


def fixed_item(rng, res, ser):
    return dict(res=res, p=ser.next(), b=rng.randint(1, 9), c=rng.randint(1, 9), e=rng.randint(1, 9), rt=rng.randint(1000, 9999),
                oc=rng.randint(10, 99), cc=rng.randint(10, 99), cl=rng.randint(1, 3))


def realsec(s, daylen, shift):
    d = s // daylen
    return d * DAY + s % daylen + (shift if d == 0 else 0)


def decorate(hist, tr, rng, fx, final_s=None, drift=True, tail=True, cutall=False):
    """TLC history (seconds, batches of resource names, cut classes) -> driver scenario (ms, items, searcher ids)"""
    new = hist[0]
    dl = new['daylen']
    shift = rng.choice([0, DAY - dl]) if dl < 1000 else 0
    ms = lambda s: realsec(s, dl, shift) * 1000 + rng.randint(0, 999)
    ser = Serial()
    out = [dict(op='new', tr=tr, maxsize=new['maxlines'] * W, maxfiles=new['maxfiles'], t0=ms(new['t0']), fx=fx, drift=drift)]
    maxsec = max([new['t0'] + 1] + [o.get('sec', 0) for o in hist])
    nops = len(hist)
    cut_seen = False
    for i, o in enumerate(hist[1:], 2):
        last = i == nops
        if o['op'] == 'write':
            out.append(dict(op='write', t=ms(o['sec']), items=[fixed_item(rng, r, ser) for r in o['res'] if r != '-']))
        elif o['op'] in ('find', 'from'):
            s = final_s if (last and final_s is not None) else 1
            keep = last and final_s is not None        # the failing query of a lead is replayed as it is
            if o['op'] == 'find':
                e = o['e'] if keep else rng.choice([o['b'], maxsec, maxsec, rng.randint(o['b'], max(o['b'], maxsec)), o['b'] - 1])
                res = o['res'] if keep else rng.choice(['', '', 'r1', 'r2'])
                out.append(dict(op='find', s=s, b=ms(o['b']), e=ms(max(e, 0)), res=res))
            else:
                n = o['n'] if keep else rng.choice([0, 1, 2, 2, 3, 4])
                out.append(dict(op='from', s=s, b=ms(o['b']), n=n))
        elif o['op'] == 'cut':
            cut_seen = True
            out.append(dict(op='cut', dk=o['dk'], dt=o['dt'], ik=o['ik'], it=o['it'], v=rng.randint(0, 50)))
    if tail:
        b = rng.randint(1, maxsec)
        q = dict(op='find', s=1, b=ms(b), e=ms(maxsec + 1), res='')
        out += [q, dict(q), dict(op='from', s=1, b=ms(rng.randint(1, maxsec)), n=rng.choice([1, 2, 3])),
                dict(op='find', s=0, b=ms(1) - 999, e=ms(maxsec + 1), res='')]
    if cutall and not cut_seen:
        finds = [dict(op='find', s=0, b=0, e=ms(maxsec + 1), res=''), dict(op='from', s=0, b=ms(rng.randint(1, maxsec)), n=rng.choice([1, 2, 5])),
                 dict(op='find', s=0, b=ms(rng.randint(1, maxsec)), e=ms(maxsec + 1), res=rng.choice(['', 'r1']))]
        out += [dict(op='cutall', file='data', finds=finds), dict(op='cutall', file='idx', finds=finds)]
    return out


POOL = ['r1', 'r2', 'orders', 'GET:/api/v1/users/{id}', 'a b', 'x' * 40, 'com.acme.Service:method(java.lang.String)', 'q']
VALS = [0, 1, 7, 56, 567, 5678, 123456, 99999999]


def random_scenario(rng, tr, fx, cutall=False, small=False):
    ser = Serial()
    varied = rng.random() < 0.6
    maxfiles = rng.choice([1, 2, 2, 3, 3, 4, 6])
    maxsize = rng.choice([1, 60, 100, 120, 150, 180, 200, 300, 500, 1000, 100000]) if not small else rng.choice([60, 100, 120, 180, 240])
    t0sec = rng.choice([1, 5, 100, DAY - 3, DAY - 1, DAY, DAY + 7, 2 * DAY - 2, rng.randint(1, 100000)])
    out = [dict(op='new', tr=tr, maxsize=maxsize, maxfiles=maxfiles, t0=t0sec * 1000 + rng.randint(0, 999), fx=fx)]
    sec = t0sec
    secs = [t0sec]

    def item():
        res = rng.choice(POOL) if varied else rng.choice(['r1', 'r2'])
        if not varied:
            return fixed_item(rng, res, ser)
        return dict(res=res, p=ser.next(), b=rng.choice(VALS), c=rng.choice(VALS), e=rng.choice(VALS), rt=rng.choice(VALS),
                    oc=rng.choice(VALS), cc=rng.choice(VALS[:6]), cl=rng.choice([0, 1, 2, 3]))

    def query(s=None):
        s = rng.choice([0, 1, 1, 2]) if s is None else s
        cand = sorted(set(secs + [x + 1 for x in secs] + [max(0, x - 1) for x in secs] + [0]))
        b = rng.choice(cand)
        if rng.random() < 0.65:
            e = rng.choice([b, max(cand), max(cand), rng.choice(cand), b + 2])
            res = rng.choice(['', '', ''] + (POOL if varied else ['r1', 'r2']))
            return dict(op='find', s=s, b=b * 1000 + rng.randint(0, 999), e=e * 1000 + rng.randint(0, 999), res=res)
        return dict(op='from', s=s, b=b * 1000 + rng.randint(0, 999), n=rng.choice([0, 1, 1, 2, 3, 5, 10, 1000]))

    for _ in range(rng.randint(3, 14) if not small else rng.randint(2, 6)):
        step = rng.choice([0, 0, 0, 1, 1, 1, 1, 2, 3, -1, -2, 30, 3600])
        if rng.random() < 0.04:
            step = DAY - sec % DAY          # first second of the next day
        wsec = sec + step
        if step >= 0:
            sec = wsec
            secs.append(sec)
        if wsec < 1:
            continue
        k = rng.choice([1, 1, 2, 2, 3, 5]) if rng.random() > 0.03 else 0
        out.append(dict(op='write', t=wsec * 1000 + rng.randint(0, 999), items=[item() for _ in range(k)]))
        for _ in range(rng.choice([0, 0, 1, 1, 2])):
            out.append(query())
    q = query(1)
    out += [q, dict(q), query(2), query(2), dict(op='find', s=0, b=0, e=(sec + 5) * 1000, res=''),
            dict(op='from', s=0, b=0, n=100000)]
    if cutall:
        finds = [dict(op='find', s=0, b=0, e=(sec + 5) * 1000, res=''), query(0), query(0)]
        out += [dict(op='cutall', file='data', finds=finds), dict(op='cutall', file='idx', finds=finds)]
    elif rng.random() < 0.7:
        for _ in range(rng.randint(1, 4)):
            which = rng.random()
            cut = dict(op='cut', dk=rng.randint(0, 5), dt=rng.choice(['none', 'garbage', 'bogus', 'bogus', 'nonl']),
                       ik=rng.randint(0, 4), it=rng.choice(['none', 'nosec', 'nooff']), v=rng.randint(0, 50))
            if which < 0.45:
                cut.update(ik=999, it='none')      # data file only
            elif which < 0.9:
                cut.update(dk=999, dt='none')      # index file only
            out.append(cut)
            out += [dict(op='find', s=rng.choice([0, 0, 1]), b=0, e=(sec + 5) * 1000, res=''), query(), query(0)]
    return out


def everybyte_scenario(rng, tr, fx):
    """fixed-width history whose LAST data file is known (sizes are simulated here) to hold 2..5 lines of at least two
    seconds, followed by a cut at every byte offset of that file and of its index file, three searches after each cut"""
    ser = Serial()
    maxsize = rng.choice([180, 240, 300, 360, 10 ** 6])
    maxfiles = rng.choice([1, 2, 3])
    t0sec = rng.choice([5, DAY - 2, DAY - 1, 3 * DAY - 4])
    out = [dict(op='new', tr=tr, maxsize=maxsize, maxfiles=maxfiles, t0=t0sec * 1000 + rng.randint(0, 999), fx=fx)]
    sec, cur, cursecs, n = t0sec, 0, set(), 0
    while True:
        n += 1
        step = rng.choice([0, 1, 1, 2, 5]) if n > 1 else rng.choice([0, 1])
        if rng.random() < 0.1:
            step = DAY - sec % DAY
        k = rng.choice([1, 1, 2])
        if sec // DAY != (sec + step) // DAY:
            cur, cursecs = 0, set()
        sec += step
        out.append(dict(op='write', t=sec * 1000 + rng.randint(0, 999), items=[fixed_item(rng, rng.choice(['r1', 'r2']), ser) for _ in range(k)]))
        cur += k
        cursecs.add(sec)
        if cur * W >= maxsize:
            cur, cursecs = 0, set()
        if n >= 3 and 2 <= cur <= 5 and len(cursecs) >= 2 or n > 40:
            break
    lo = min(cursecs) if cursecs else sec
    finds = [dict(op='find', s=0, b=0, e=(sec + 5) * 1000, res=''),
             dict(op='from', s=0, b=rng.choice([0, lo * 1000, sec * 1000]), n=rng.choice([1, 2, 100])),
             dict(op='find', s=0, b=rng.choice([lo, sec, lo + 1]) * 1000, e=(sec + 5) * 1000, res=rng.choice(['', 'r1']))]
    out += [dict(op='find', s=1, b=lo * 1000, e=(sec + 5) * 1000, res=''), dict(op='cutall', file='data', finds=finds), dict(op='cutall', file='idx', finds=finds)]
    return out


def safe_scenario(rng, tr, fx):
    """no roll, no write in the creation second, fresh searchers only: no known deviation can show (binding self-test)"""
    ser = Serial()
    out = [dict(op='new', tr=tr, maxsize=10 ** 6, maxfiles=3, t0=10000 + rng.randint(0, 999), fx=fx)]
    sec = 10
    for _ in range(rng.randint(3, 6)):
        sec += rng.choice([1, 1, 2])
        out.append(dict(op='write', t=sec * 1000 + rng.randint(0, 999), items=[fixed_item(rng, rng.choice(['r1', 'r2']), ser) for _ in range(rng.randint(1, 3))]))
        if rng.random() < 0.5:
            out.append(dict(op='from', s=0, b=rng.randint(10, sec) * 1000, n=rng.randint(0, 4)))
    out.append(dict(op='find', s=0, b=11000, e=(sec + 1) * 1000, res=''))
    return out


# ------------------------------------------------------------------------------------------------ run + judge
def run_and_validate(c, drv, scns, tag, count=True):
    """-> (mismatches [dict(tr, line, rel, cls, raw)], drifts [(tr, line, raw)], trace path)"""
    sp = os.path.join(c.scratch, tag + '.scn.ndjson')
    tp = os.path.join(c.scratch, tag + '.trace.ndjson')
    dd = os.path.join(c.scratch, 'dirs-' + tag)
    os.makedirs(dd, exist_ok=True)
    write_ndjson(sp, [o for s in scns for o in s])
    c.run([drv, sp, tp, dd], timeout=900)
    start = {}
    nlines = 0
    for i, l in enumerate(open(tp), 1):
        nlines = i
        if '"op":"new"' in l:
            d = json.loads(l)
            if d.get('op') == 'new':
                start[d['tr']] = i
    mism, consumed, r = c.validate('MetricLog_Trace', tp, nlines, timeout=2400)
    if consumed != nlines:
        raise MachineryError('%s: trace validation consumed %d of %d lines (malformed trace?)\n%s' % (tag, consumed, nlines, r.out[-1500:]))
    out = []
    for tr, ln, raw in mism:
        try:
            d = json.loads(raw)
        except Exception:
            raise MachineryError('unparsable MISMATCH payload: ' + raw[:300])
        out.append(dict(tr=tr, line=ln, rel=ln - start[tr], cls=sorted(d.get('cls', ['other'])), raw=raw))
    drifts = []
    for l in r.out.splitlines():
        if l.startswith('"DRIFT '):
            _, a, b, rest = json.loads(l).split(' ', 3)
            drifts.append((int(a), int(b), rest))
    if count:
        c.cov['traces_validated_against_impl'] += len(scns)
        c.cov['evaluations'] += nlines
        c.cov['conformance_mismatches'] += len(drifts)
    c.log('S3/S4 %s: %d scenarios, %d events validated in %.0fs, %d mismatching events in %d traces, %d drifting traces' % (
        tag, len(scns), nlines, r.wall, len(out), len({m['tr'] for m in out}), len(drifts)))
    if drifts:
        c.log('  first drift: trace %d line %d model=%s' % (drifts[0][0], drifts[0][1], drifts[0][2][:300]))
    return out, drifts, tp


def classify(c, m):
    """known-finding keys of one confirmed mismatching event, or None if any of its classes is not a listed finding"""
    keys = []
    for cl in m['cls']:
        k = KEYS.get(cl)
        if not k or not c.is_known(k):
            return None
        keys.append(k)
    return keys


def handle_mismatches(c, drv, scns, mism, tag, confirm=True, replay_path=None):
    if not mism:
        return
    by_tr = {s[0]['tr']: s for s in scns}
    sub = [by_tr[t] for t in sorted({m['tr'] for m in mism})]
    sig = lambda ms: sorted((m['tr'], m['rel'], tuple(m['cls'])) for m in ms)
    if confirm:
        # confirm twice from the scenarios alone, in a fresh process (both repetitions in one driver / TLC start)
        OFF = 10 ** 6
        twice = sub + [[dict(s[0], tr=s[0]['tr'] + OFF)] + s[1:] for s in sub]
        m2, _, _ = run_and_validate(c, drv, twice, '%s-confirm' % tag, count=False)
        a = [m for m in m2 if m['tr'] < OFF]
        b = [dict(m, tr=m['tr'] - OFF) for m in m2 if m['tr'] >= OFF]
        if sig(a) != sig(mism) or sig(b) != sig(mism):
            c.inconclusive.append('%s: %d mismatching events did not reproduce identically (%d and %d on the two re-runs)' % (tag, len(mism), len(a), len(b)))
            return
    saved = c.cov.setdefault('violations_listed_per_class', {})     # shared by all groups of one run
    for m in sorted(mism, key=lambda m: (len(by_tr[m['tr']]), m['tr'], m['line'])):
        keys = classify(c, m)
        s = by_tr[m['tr']]
        label = '+'.join(m['cls'])
        for cl in m['cls']:
            c.cov['classes_seen'][cl] = c.cov['classes_seen'].get(cl, 0) + 1
        if keys:
            for cl, k in zip(m['cls'], keys):
                if k not in c.known_seen:
                    c.save_replay('known-%s-%s-tr%d.ndjson' % (cl, tag, m['tr']), s)
                c.known(k, c.kf[k].get('description') or WHAT[cl])
            continue
        if saved.get(label, 0) >= 2 or (sum(saved.values()) >= 12 and label in saved):      # every class set is listed at least once
            c.cov['violations_not_listed'] = c.cov.get('violations_not_listed', 0) + 1
            continue
        saved[label] = saved.get(label, 0) + 1
        rp = replay_path or c.save_replay('%s-%s-tr%d.ndjson' % (tag, label, m['tr']), s)
        what = '; '.join('[%s] %s' % (KEYS.get(cl, 'C17/' + cl), WHAT.get(cl, cl)) for cl in m['cls'])
        c.violation('%s -- event %d of trace %d (%d ops): %s' % (what, m['rel'] + 1, m['tr'], len(s), m['raw'][:500]), rp)


def binding_selftest(c, drv, fx, first_tr):
    """good traces of scenarios that cannot show any known deviation, one recorded answer corrupted in each:
    every corrupted trace must be rejected, every untouched one accepted"""
    scns = [safe_scenario(c.rng, first_tr + i, fx) for i in range(24)]
    mism, _, tp = run_and_validate(c, drv, scns, 'selftest-good', count=False)
    if mism:
        return scns, mism      # not good after all: a real deviation, handled by the caller
    lines = [json.loads(l) for l in open(tp)]
    want, tr, kinds = set(), None, {}
    last_find = {}
    for i, e in enumerate(lines):
        if e['op'] == 'new':
            tr = e['tr']
        if e['op'] == 'find' and len(e['items']) >= 2:
            last_find[tr] = i
    for n, (tr, i) in enumerate(sorted(last_find.items())):
        if n % 6 == 5:
            continue            # left untouched: must stay accepted
        its = lines[i]['items']
        kind = ['field', 'drop', 'dup', 'swap', 'time'][n % 5]
        j = c.rng.randrange(len(its))
        if kind == 'field':
            its[j][c.rng.choice(['rt', 'oc', 'cc', 'cl', 'b', 'c', 'e', 'p'])] += 1
        elif kind == 'drop':
            del its[j]
        elif kind == 'dup':
            its.insert(j, dict(its[j]))
        elif kind == 'swap':
            its[0], its[-1] = its[-1], its[0]
        else:
            its[j]['t'] += 1000
        kinds[kind] = kinds.get(kind, 0) + 1
        want.add(tr)
    cp = os.path.join(c.scratch, 'selftest-corrupt.ndjson')
    write_ndjson(cp, lines)
    m2, consumed, r = c.validate('MetricLog_Trace', cp, len(lines))
    got = {m[0] for m in m2}
    if got != want or consumed != len(lines) or len(want) < 10:
        raise MachineryError('binding self-test failed: corrupted traces %s, rejected %s' % (sorted(want), sorted(got)))
    c.cov['binding_selftest'] = '%d corrupted answers (%s), all rejected; %d untouched traces accepted' % (len(want), kinds, len(last_find) - len(want))
    c.log('binding self-test: ' + c.cov['binding_selftest'])
    return scns, []


def maximal(hs):
    """drop histories that are proper prefixes of another history"""
    keys = sorted(json.dumps(x, sort_keys=True)[:-1] for x in hs)
    out = []
    for i, k in enumerate(keys):
        if i + 1 < len(keys) and keys[i + 1].startswith(k) and (keys[i + 1] == k or keys[i + 1][len(k)] == ','):
            continue
        out.append(json.loads(k + ']'))
    return out


def nontrivial(s):
    """a scenario exercises the property if something accepted is searched for after a roll, by a searcher that was used
    before, or after a truncation"""
    nw = sum(1 for o in s if o['op'] == 'write' and o['items'])
    nq = sum(1 for o in s if o['op'] in ('find', 'from'))
    return nw >= 1 and nq >= 1 and (nw >= 2 or any(o['op'] in ('cut', 'cutall') for o in s))


# ------------------------------------------------------------------------------------------------ leads
LEADS = [   # (name, switch that is OFF, classes that show it on the code, model instance)
    # (except for "create" nothing is written in the creation second, so that a lead shows its own defect class only)
    ('cache', 'cache', {'cache'}, dict(maxwrites=3, maxqueries=2, withcut=False, createsecs='{1}', csw=False, daylen=100)),
    ('offreset', 'offreset', {'cache'}, dict(maxwrites=3, maxqueries=2, withcut=False, createsecs='{1}', csw=False, daylen=100)),
    ('create', 'headidx', {'create'}, dict(maxwrites=2, maxqueries=1, withcut=False)),
    ('roll-size', 'headidx', {'roll'}, dict(maxwrites=5, maxqueries=0, withcut=False, csw=False, daylen=100, createsecs='{1}')),
    ('roll-day', 'headidx', {'roll'}, dict(maxwrites=3, maxqueries=0, withcut=False, csw=False, daylen=2, maxsize=100, createsecs='{1}')),
    ('torn', 'torn', {'torn'}, dict(maxwrites=2, maxqueries=0, withcut=True, createsecs='{1}', csw=False, daylen=100)),
]
LEAD_CLASSES = {name: cls for name, _, cls, _ in LEADS}


def get_leads(c):
    """one TLC run per repair switched off: the design must break, the counterexamples are the leads"""
    out = {}
    for name, sw, _, kw in LEADS:
        fixes = [x for x in ALL_FIXES if x != sw]
        r = c.model_check('MetricLog_MC', cfg_text=mc_cfg(fixes, invariants='LeadFresh LeadCached', **kw), workers=4, timeout=600)
        leads = [x for x in r.json_prints() if isinstance(x, dict) and 'lead' in x]
        if not r.violated or not leads:
            raise MachineryError('MetricLog.tla without repair "%s" (%s) does not break the property: the invariants are vacuous at these bounds' % (sw, name))
        leads.sort(key=lambda x: (len(x['lead']), json.dumps(x, sort_keys=True)))
        out[name] = leads[:4]
    return out


def check(c, tier, replay):
    drv = c.build('c17')
    c.cov['classes_seen'] = {}
    if replay:
        s = read_ndjson(replay)
        s[0]['drift'] = False
        mism, _, _ = run_and_validate(c, drv, [s], 'replay')
        handle_mismatches(c, drv, [s], mism, 'replay', confirm=False, replay_path=replay)
        c.cov['states'] = c.cov['transitions'] = 1
        c.sample(s[:8])
        return
    thorough = tier == 'thorough'
    rng = c.rng
    # S1 ---------------------------------------------------------------------------------
    geos = [dict(maxqueries=1)] if not thorough else [dict(maxwrites=5), dict(maxfiles=3, maxsize=2, maxwrites=4),
                                                      dict(maxfiles=2, maxsize=3, maxwrites=4, maxqueries=1),
                                                      dict(maxfiles=3, maxsize=3, maxwrites=4, maxsec=6, maxqueries=1, createsecs='{3}')]
    if os.environ.get('C17_MUTANT_TRIAL'):
        # used only when trying code mutants (notes/C17.md): skips the exhaustive run; such a run can end with exit 1 or 2, never 0
        geos = []
        c.inconclusive.append('mutant-trial mode: exhaustive S1 run skipped')
    for kw in geos:
        r = c.model_check('MetricLog_MC', cfg_text=mc_cfg(ALL_FIXES, **kw), workers=8, timeout=3000)
        if not r.completed:
            c.inconclusive.append('MetricLog.tla with all repairs: %s violated (%s) - the repaired design does not satisfy the property' % (r.violated, kw))
    c.cov['exhaustive'] = True
    leads = get_leads(c)
    # calibration: which variant of the implementation layer is the code under test? -------
    tr = 0
    lead_scns, lead_of = [], {}
    for name, ls in leads.items():
        for x in ls:
            tr += 1
            lead_scns.append(decorate(x['lead'], tr, rng, [], final_s=x['s'], drift=False, tail=False))
            lead_of[tr] = name
    mism, _, _ = run_and_validate(c, drv, lead_scns, 'leads')
    hit, stray = {}, {}
    for m in mism:
        name = lead_of[m['tr']]
        own = set(m['cls']) & LEAD_CLASSES[name]
        if own:
            hit.setdefault(name, set()).update(own)
        if set(m['cls']) - LEAD_CLASSES[name]:
            stray.setdefault(name, set()).update(set(m['cls']) - LEAD_CLASSES[name])
    c.log('leads reproduced on the code: %s%s' % ({k: sorted(v) for k, v in hit.items()} or 'none',
                                                 ('  (other classes seen on leads: %s)' % {k: sorted(v) for k, v in stray.items()}) if stray else ''))
    code_fx = []
    if 'cache' not in hit:
        code_fx.append('cache')
        if 'offreset' not in hit:
            code_fx.append('offreset')
    if not ({'create', 'roll-size', 'roll-day'} & set(hit)):
        code_fx.append('headidx')
    if 'torn' not in hit:
        code_fx.append('torn')
    c.cov['model_variant_of_code'] = code_fx
    c.cov['leads'] = {k: ('reproduced: ' + '+'.join(sorted(hit[k]))) if k in hit else 'not reproduced' for k in leads}
    c.log('implementation-layer variant matching the code: Fixes = %s' % fx_set(code_fx))
    if set(code_fx) != set(ALL_FIXES):
        r = c.model_check('MetricLog_MC', cfg_text=mc_cfg(code_fx), workers=8, timeout=900)
        c.cov['design_level_verdict_for_code_variant'] = 'violates ' + str(r.violated) if r.violated else 'holds'
        if not r.violated:
            c.inconclusive.append('leads reproduce on the code but the matching model variant %s satisfies the property' % code_fx)
    handle_mismatches(c, drv, lead_scns, mism, 'lead')
    for name in leads:
        c.sample(dict(lead=name, scenario=lead_scns[[i for i, s in enumerate(lead_scns) if lead_of[s[0]['tr']] == name][0]]), limit=6)
    # binding self-test ---------------------------------------------------------------------
    safe, m = binding_selftest(c, drv, code_fx, tr + 1)
    tr += len(safe)
    handle_mismatches(c, drv, safe, m, 'safe')
    # S2 ---------------------------------------------------------------------------------
    scns = []
    gen = [dict(maxwrites=3, maxqueries=1, createsecs='{1, 3}')] if not thorough else [dict(maxwrites=4, maxqueries=1), dict(maxfiles=3, maxwrites=3, maxqueries=2)]
    cap = 300 if not thorough else 6000
    ncut = 0
    for kw in gen:
        r = c.tlc('MetricLog_MC', cfg_text=mc_cfg(code_fx, invariants='', extra='ACTION_CONSTRAINT Emit\n', **kw), workers=4, timeout=1200, count=False)
        if r.error:
            raise MachineryError('scenario generation failed: %s\n%s' % (r.error, r.out[-1500:]))
        hs = r.json_prints()
        keep = maximal([x for x in hs if isinstance(x, list)])
        n_all = len(keep)
        if len(keep) > cap:
            keep = rng.sample(keep, cap)
        for hh in keep:
            tr += 1
            ca = (not thorough and ncut < 4 or thorough and ncut < 40) and rng.random() < 0.05
            ncut += 1 if ca else 0
            scns.append(decorate(hh, tr, rng, code_fx, cutall=ca))
        c.log('S2 transition cover %s: %d transitions -> %d maximal histories -> %d scenarios' % (kw, len(hs), n_all, len(keep)))
    cover_n = len(scns)
    sim = []
    for kw in ([dict(maxfiles=3, maxsize=3, maxsec=9, maxwrites=9, maxqueries=5, batches='MCBatches')] if not thorough else
               [dict(maxfiles=3, maxsize=3, maxsec=9, maxwrites=9, maxqueries=5, batches='MCBatches'),
                dict(maxfiles=2, maxsize=2, maxsec=9, maxwrites=10, maxqueries=6, batches='MCBatches'),
                dict(maxfiles=4, maxsize=2, maxsec=12, daylen=3, maxwrites=12, maxqueries=4)]):
        num = 40 if not thorough else 300
        simcap = 300 if not thorough else 2000
        r = c.tlc('MetricLog_MC', cfg_text=mc_cfg(code_fx, invariants='', extra='ACTION_CONSTRAINT Emit\n', **kw), workers=1, timeout=900, count=False,
                  args=['-simulate', 'num=%d' % num, '-depth', '18', '-seed', str(c.seed)])
        keep = maximal([x for x in r.json_prints() if isinstance(x, list)])
        if not keep:
            raise MachineryError('TLC simulation produced no behaviours: %s' % r.out[-1500:])
        keep.sort(key=lambda x: (-len(x), json.dumps(x, sort_keys=True)))
        keep = keep[:simcap // 2] + rng.sample(keep[simcap // 2:], min(simcap // 2, len(keep[simcap // 2:])))
        for hh in keep:
            tr += 1
            sim.append(decorate(hh, tr, rng, code_fx))
        c.log('S2 TLC simulation %s: %d behaviours' % (kw, len(keep)))
    nrand = 200 if not thorough else 2000
    rnd = []
    for i in range(nrand):
        tr += 1
        rnd.append(random_scenario(rng, tr, code_fx))
    ncutall = 5 if not thorough else 60
    every = []
    for i in range(ncutall):
        tr += 1
        every.append(everybyte_scenario(rng, tr, code_fx))
    # S3 + S4 ----------------------------------------------------------------------------
    groups = [('tlc', scns), ('sim', sim), ('random', rnd), ('everybyte', every)]
    if not thorough:
        groups = [('all', scns + sim + rnd + every)]        # one driver / TLC start for the whole quick tier
    for tag, group in groups:
        for i in range(0, len(group), 2000):
            part = group[i:i + 2000]
            mism, drifts, tp = run_and_validate(c, drv, part, '%s%d' % (tag, i))
            handle_mismatches(c, drv, part, mism, '%s%d' % (tag, i))
    allscn = lead_scns + scns + sim + rnd + every
    if c.cov['conformance_mismatches']:
        c.log('CONFORMANCE-DRIFT: in %d traces the files / index entries / answers predicted by the implementation-shaped model (Fixes = %s) '
              'differ from the code (counted in the evidence, not a verdict)' % (c.cov['conformance_mismatches'], fx_set(code_fx)))
    c.cov['distinct_nontrivial'] = len({json.dumps(s[1:], sort_keys=True) for s in allscn if nontrivial(s)})
    c.cov['every_byte_scenarios'] = len(every) + ncut
    c.cov['rule'] = ('scenarios = TLC leads (%d) + seeded sample of the transition cover of the bounded MetricLog spec (%d) + TLC random simulation (%d) '
                     '+ seeded random histories (%d) + histories whose last data and index file are cut at every byte offset (%d); non-trivial = '
                     'distinct operation sequence with at least one accepted write and one search and (two writes or a truncation)' % (
                         len(lead_scns), cover_n, len(sim), len(rnd), len(every) + ncut))
    c.sample(scns[len(scns) // 2][:8], limit=8)
    c.sample(rnd[0][:10], limit=8)
    c.assumptions += ['one writer per directory, never restarted; searches run while no write is in progress',
                      'resource names without the field separator, line breaks or non-ASCII characters; every number below 2^31',
                      'items of one history are pairwise different (a serial number in PassQps), so "no duplicates" is decidable from the answer',
                      'FindFromTimeWithMaxLines: an answer may exceed the line limit only to complete the second of the last counted line (relation, see FromOK)',
                      'which files are retained is taken from the observed directory (the property only bounds their number); the roll rule of the '
                      'model is compared as conformance drift, not judged',
                      'TLC model checking is exhaustive only for the small instances listed in tlc_runs']


_check_without_pipeline = check


def check(c, tier, replay):
    _check_without_pipeline(c, tier, replay)
    if tier == 'thorough' and not replay:
        # the whole metric pipeline (Entry/Exit -> statistics -> aggregator -> writer -> files -> searcher), see checks/PIPELINE.py
        import stages
        stages.run_stage(c, 'PIPELINE', 'pipeline_stage')


main('C17', check)
