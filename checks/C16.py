"""C16 - slot chain: ordering (ascending order value, insertion order on ties), short-circuit on the first
blocking rule-check slot, statistic slots told the outcome / completion exactly once, fail-open on panics,
block errors stable under later traffic.

S1  TLC checks EntryChain.tla (instance "chain": every chain of <= 1/3/1(2) recording slots with colliding order
    values and every behaviour, followed by entries / exits) against the invariants ChainSorted, OrderOK,
    StatToldOnce, BlockErrOK, CompletionTold and the action properties BlockErrStable, LateCallsInert.
S2  scenarios: (a) one per transition of a smaller instance of the same spec, (b) TLC random simulation of a larger
    instance (exit handlers, completion panics), (c) seeded random chains with up to 5 slots per kind, extreme order
    values, slots added between entries, three ways of blocking, traffic that recycles the pooled contexts.
S3  harness/cmd/c16 builds the chains from recording slots on the real base.SlotChain and enters through
    api.Entry(WithSlotChain); records call logs, results, and every block error handed out, after every operation.
S4  EntryChain_Trace.tla (TLC) judges every record with the operators of EntryChainOps.tla.

Several chains alive at once (EntryChains.tla, trace mode "multi"): S1 also checks the multi-chain model (chain = map chain id ->
slot lists; chains made by the constructors new / default / global and extended afterwards in any interleaving; invariants
Isolation, EntryOwn, ExitOwn, ToldOncePerChain) and requires the spec-level mutant "the default chains share their slot lists" to be
rejected; S2 adds scenarios of that model (transition cover, TLC simulation, seeded random, directed) in which the driver obtains the
chains from base.NewSlotChain / api.BuildDefaultSlotChain / api.GlobalSlotChain; S4 judges every entry against ITS chain.
"""
import json, os, sys
import vlib, eclib
from vlib import main, write_ndjson, read_ndjson, MachineryError
from eclib import mc_cfg, CHAIN_DEFAULTS, maximal, run_and_validate, validate_lines

K_ADOPT = 'C16/rule-slot-hands-out-its-own-result-object/adopted-by-pooled-context-and-reset'
WHAT = {K_ADOPT: 'SlotChain.Entry stores the *TokenResult a blocking rule slot returned into the pooled EntryContext; recycling the context resets that '
                 'object: a slot that answers with one pre-built "blocked" result blocks only the first request (afterwards its object reads "pass" and '
                 'every request is admitted), and a slot-owned object can end up in two pooled contexts, so that a passing slot which returns the '
                 'context\'s result is seen blocking with another entry\'s error'}
BMS, BMW = ['fresh', 'ctx', 'own', 'const', 'partial'], [3, 3, 2, 1, 3]
ORDER_POOLS = [[1, 2], [0, 1000, 2000], [5, 5, 7], [0, 2147483647], [1000, 1000, 1000, 3000], [3, 2, 1]]


def suffix_traffic(s, nent, rng, res=('r1',), exited=None):
    """further traffic that recycles pooled contexts / token results, then exits in random order, repeated exits"""
    for _ in range(rng.randint(1, 3)):
        s.append(dict(op='entry', res=rng.choice(res), b=1, inb=False, so='chain', xh=''))
        nent += 1
    ids = list(range(1, nent + 1))
    rng.shuffle(ids)
    done = set(exited or ())
    for i in ids:
        # (errors only on a first Exit: what a late call does to other entries is property C01, not C16)
        s.append(dict(op='exit', id=i, e=rng.choice(['', '', 'x']) if i not in done else ''))
        done.add(i)
        if rng.random() < 0.3:
            s.append(dict(op='exit', id=rng.choice(sorted(done)), e=''))
    s.append(dict(op='entry', res=res[0], b=1, inb=False, so='chain', xh=''))
    s.append(dict(op='exit', id=nent + 1, e=''))
    return s


def decorate(hist, tr, rng):
    s = [dict(op='new', tr=tr, mode='chain', t=100, nodes=[])]
    nent, done = 0, set()
    for o in hist:
        o = dict(o)
        if o['op'] == 'slot' and o['beh'] == 'block':
            o['bm'] = rng.choices(BMS, BMW)[0]
        if o['op'] == 'entry':
            nent += 1
        if o['op'] in ('exit', 'terr') and o['id'] in done:
            if o['op'] == 'terr':
                continue
            o['e'] = ''
        if o['op'] == 'exit':
            done.add(o['id'])
        s.append(o)
    return suffix_traffic(s, nent, rng, exited=done)


def random_scenarios(c, n, first_tr):
    rng = c.rng
    out = []
    for i in range(n):
        tr = first_tr + i
        mode = 'chain' if rng.random() < 0.9 else 'stat'
        s = [dict(op='new', tr=tr, mode=mode, t=rng.choice([1, 100, 499]), nodes=[])]
        pool = rng.choice(ORDER_POOLS)
        slots = []
        for k, behs, w in (('pre', ['pass', 'panic'], [8, 1]),
                           ('rule', ['pass', 'ctx', 'nil', 'wait', 'block', 'panic'], [3, 3, 3, 1, 4, 1]),
                           ('stat', ['pass', 'panic', 'panicC'], [10, 1, 1])):
            for _ in range(rng.choice([0, 1, 2, 2, 3, 3, 4, 5])):
                sl = dict(op='slot', k=k, ord=rng.choice(pool), beh=rng.choices(behs, w)[0])
                if sl['beh'] == 'block':
                    sl['bm'] = rng.choices(BMS, BMW)[0]
                slots.append(sl)
        if mode == 'stat':
            slots.append(dict(op='slot', k='pre', ord=rng.choice(pool), beh='real'))
            slots.append(dict(op='slot', k='stat', ord=rng.choice(pool), beh='real'))
        rng.shuffle(slots)
        late = []
        if rng.random() < 0.3 and len(slots) > 2:       # some slots are added after the first entries
            late = slots[-2:]
            slots = slots[:-2]
        s += slots
        nent, live, done = 0, [], set()
        for step in range(rng.randint(3, 10)):
            if late and step == 2:
                s += late
                late = []
            x = rng.random()
            if x < 0.5 or not live:
                nent += 1
                s.append(dict(op='entry', res=rng.choice(['r1', 'r2']), b=rng.choice([1, 1, 3]), inb=rng.random() < 0.3, so='chain',
                              xh=rng.choices(['', 'ok', 'err', 'panic'], [6, 2, 1, 1])[0]))
                live.append(nent)
            elif x < 0.8:
                i = rng.choice(live)
                s.append(dict(op='exit', id=i, e=rng.choice(['', 'x']) if i not in done else ''))
                done.add(i)
            elif x < 0.9:
                cand = [i for i in live if i not in done]
                if cand:
                    s.append(dict(op='terr', id=rng.choice(cand), e='z'))
            else:
                s.append(dict(op='tick', d=rng.choice([0, 1, 500])))
        s += late
        out.append(suffix_traffic(s, nent, rng, res=('r1', 'r2'), exited=done))
    return out


def directed(first_tr):
    """short chains around slots that keep the result object they hand out (ordinary scenarios)"""
    E = lambda: dict(op='entry', res='r1', b=1, inb=False, so='chain', xh='')
    out, tr = [], first_tr
    for bm in ('const', 'own', 'ctx', 'fresh'):
        out.append([dict(op='new', tr=tr, mode='chain', t=100, nodes=[]), dict(op='slot', k='rule', ord=1, beh='block', bm=bm),
                    dict(op='slot', k='stat', ord=1, beh='pass'), E(), E(), E()])
        tr += 1
        # a passing slot that returns the context's result in front of the blocker, a statistic slot that panics (entries stay live)
        out.append([dict(op='new', tr=tr, mode='chain', t=100, nodes=[]), dict(op='slot', k='rule', ord=1, beh='ctx'),
                    dict(op='slot', k='rule', ord=2, beh='block', bm=bm), dict(op='slot', k='stat', ord=1, beh='panic'),
                    E(), E(), dict(op='exit', id=1, e=''), E(), dict(op='exit', id=2, e=''), E(), E(), dict(op='exit', id=3, e=''), E()])
        tr += 1
    # a scripted blocker (full cause, written into the context's own result) in front of a slot that blocks through the
    # partial helper ResetToBlocked(type): entry 1 is blocked by the first, later entries reuse its pooled context and are
    # blocked by the second, whose error must name neither a rule nor a snapshot
    S = lambda so: dict(op='entry', res='r1', b=1, inb=False, so=so, xh='')
    for bm1 in ('ctx', 'fresh', 'own'):
        out.append([dict(op='new', tr=tr, mode='chain', t=100, nodes=[]), dict(op='slot', k='rule', ord=1, beh='script', bm=bm1),
                    dict(op='slot', k='rule', ord=2, beh='block', bm='partial'), dict(op='slot', k='stat', ord=1, beh='pass'),
                    S('block'), S('pass'), S('block'), S('pass'), S('pass')])
        tr += 1
    return out


# ---------------------------------------------------------------------------------- several chains alive at once
MULTI_DEFAULTS = dict(Ctors={'new', 'default', 'global'}, SlotKinds={'rule', 'stat'}, Orders={1, 2}, PreBehs={'pass'},
                      RuleBehs={'pass', 'block'}, StatBehs={'pass'}, DefaultChain='<-MCDefaultChain', Scripts={'chain'},
                      MaxChains=2, MaxSlots=3, MaxEntries=2, MaxLive=2, MaxOps=8, Mutant='')
MULTI_INVS = 'TypeOK ChainsSorted Isolation EntryOwn ExitOwn ToldOncePerChain'
# order values around the built-in slots of a default chain (1000 .. 5000): behind all of them, in front, in between, on them
MULTI_POOLS = [[7000], [7000, 7000, 8000], [10, 7000], [10, 20], [500, 2500, 6000], [1000, 3000, 5000], [0, 2147483647], [1, 2]]


def multi_cfg(invs=MULTI_INVS, emit=False, **over):
    p = dict(MULTI_DEFAULTS)
    p.update(over)
    lines = ['SPECIFICATION Spec', 'CONSTANTS']
    for k, v in p.items():
        lines.append('  %s <- %s' % (k, v[2:]) if isinstance(v, str) and v.startswith('<-') else '  %s = %s' % (k, eclib.tla(v)))
    lines.append('VIEW view')
    lines.append('ACTION_CONSTRAINT Emit' if emit else 'INVARIANTS ' + invs)
    lines.append('CHECK_DEADLOCK FALSE')
    return '\n'.join(lines) + '\n'


def multi_model_check(c, thorough):
    """S1 for EntryChains.tla: the bounded model, and the spec-level mutant (must be rejected, by the state invariant and by the
    observable ones alone)"""
    over = dict(MaxChains=3, MaxOps=9) if thorough else {}
    r = c.model_check('EntryChains_MC', cfg_text=multi_cfg(**over), workers=8, timeout=1500)
    if not r.completed:
        c.inconclusive.append('EntryChains.tla: %s - the multi-chain model violates its own property' % (r.violated or 'deadlock'))
    rej = []
    for invs in ('TypeOK Isolation', 'TypeOK EntryOwn', 'TypeOK ToldOncePerChain', 'TypeOK ExitOwn'):
        m = c.tlc('EntryChains_MC', cfg_text=multi_cfg(invs=invs, Mutant='shared'), workers=4, timeout=600, count=False)
        if m.error:
            raise MachineryError('TLC failed on spec mutant shared: %s\n%s' % (m.error, m.out[-1500:]))
        c.cov['tlc_runs'].append(dict(module='EntryChains_MC', cfg='mutant shared (%s)' % invs, generated=m.generated, distinct=m.distinct,
                                      depth=m.depth, wall_s=round(m.wall, 1), result=str(m.violated or 'NOT REJECTED')))
        if m.completed or not m.violated:
            c.inconclusive.append('spec-level mutant "default chains share their slot lists" is NOT rejected by %s' % invs)
        else:
            rej.append(invs.split()[1])
    c.cov['spec_mutant_shared_rejected_by'] = rej
    c.log('S1 spec-level mutant "the chains of the default constructors share their slot lists" rejected by: %s' % ', '.join(rej))


def decorate_multi(hist, tr, rng):
    """a history of EntryChains (mchain / slot / entry / exit) as a driver scenario, followed by an entry through every chain and
    the exits of everything in random order"""
    s = [dict(op='new', tr=tr, mode='multi', t=100, nodes=[])]
    nent, cids, done = 0, [], set()
    for o in hist:
        o = dict(o)
        if o['op'] == 'mchain':
            cids.append(o['c'])
        if o['op'] == 'slot' and o['beh'] == 'block':
            o['bm'] = rng.choices(BMS, BMW)[0]
        if o['op'] == 'entry':
            nent += 1
        if o['op'] == 'exit':
            done.add(o['id'])
        s.append(o)
    return multi_suffix(s, nent, cids, done, rng)


def multi_suffix(s, nent, cids, done, rng):
    order = list(cids)
    rng.shuffle(order)
    for cid in order:
        s.append(dict(op='entry', c=cid, res='r1', b=1, inb=False, so='chain', xh=''))
        nent += 1
    ids = list(range(1, nent + 1))
    rng.shuffle(ids)
    for i in ids:
        s.append(dict(op='exit', id=i, e=rng.choice(['', '', 'x']) if i not in done else ''))
        done.add(i)
        if rng.random() < 0.2:
            s.append(dict(op='exit', id=rng.choice(sorted(done)), e=''))
    return s


def random_multi(c, n, first_tr):
    """seeded random: 2..4 chains from the three constructors, slots added to them in interleaved order (before, between and after
    entries, chains made late), entries through each of them"""
    rng = c.rng
    out = []
    for i in range(n):
        tr = first_tr + i
        s = [dict(op='new', tr=tr, mode='multi', t=rng.choice([1, 100, 499]), nodes=[])]
        pending = []
        for cid in range(1, rng.choice([2, 2, 3, 3, 4]) + 1):
            kind = rng.choices(['new', 'default', 'global'], [2, 5, 2])[0]
            if kind == 'global' and any(k == 'global' for _, k in pending):
                kind = 'default'
            pending.append((cid, kind))
        pool = rng.choice(MULTI_POOLS)
        made, kind_of, nent, live, done = [], {}, 0, [], set()

        def make():
            cid, kind = pending.pop(0)
            made.append(cid)
            kind_of[cid] = kind
            s.append(dict(op='mchain', c=cid, kind=kind))

        make()
        if rng.random() < 0.7:
            make()
        for step in range(rng.randint(6, 16)):
            x = rng.random()
            if pending and x < 0.15:
                make()
            elif x < 0.6:
                cid = rng.choice(made)
                own = kind_of[cid] == 'new'        # scripted panics in prepare / statistic slots only on chains without built-in slots
                k = rng.choices(['pre', 'rule', 'stat'], [1, 3, 3])[0]
                if k == 'pre':
                    beh = rng.choices(['pass', 'panic'], [8, 1 if own else 0])[0]
                elif k == 'rule':
                    beh = rng.choices(['pass', 'ctx', 'nil', 'wait', 'block', 'script', 'panic'], [3, 2, 2, 1, 4, 2, 1])[0]
                else:
                    beh = rng.choices(['pass', 'panic', 'panicC'], [10, 1 if own else 0, 1 if own else 0])[0]
                sl = dict(op='slot', c=cid, k=k, ord=rng.choice(pool), beh=beh)
                if beh in ('block', 'script'):
                    sl['bm'] = rng.choices(BMS, BMW)[0]
                s.append(sl)
            elif x < 0.87 or not live:
                nent += 1
                s.append(dict(op='entry', c=rng.choice(made), res=rng.choice(['r1', 'r2']), b=rng.choice([1, 1, 3]), inb=False,
                              so=rng.choices(['chain', 'pass', 'block'], [4, 1, 2])[0], xh=rng.choices(['', 'ok'], [5, 1])[0]))
                live.append(nent)
            else:
                j = rng.choice(live)
                s.append(dict(op='exit', id=j, e=rng.choice(['', 'x']) if j not in done else ''))
                done.add(j)
        while pending:
            make()
        out.append(multi_suffix(s, nent, made, done, rng))
    return out


def directed_multi(first_tr):
    """chains from the default constructors with DIFFERENT slots of their own at the same position / in front of the built-in ones"""
    out, tr = [], first_tr
    N = lambda: dict(op='new', tr=0, mode='multi', t=100, nodes=[])
    C = lambda c, kind: dict(op='mchain', c=c, kind=kind)
    S = lambda c, k, o, beh, **kw: dict(dict(op='slot', c=c, k=k, ord=o, beh=beh), **kw)
    E = lambda c: dict(op='entry', c=c, res='r1', b=1, inb=False, so='chain', xh='')
    X = lambda i: dict(op='exit', id=i, e='')
    for ka, kb in (('default', 'default'), ('default', 'global'), ('global', 'default'), ('new', 'default'), ('new', 'new')):
        # each chain gets a rule-check and a statistic slot of its own behind the built-in ones: A's blocks, B's passes
        out.append([N(), C(1, ka), S(1, 'rule', 7000, 'block', bm='fresh'), S(1, 'stat', 7000, 'pass'),
                    C(2, kb), S(2, 'rule', 7000, 'pass'), S(2, 'stat', 7000, 'pass'), E(1), E(2), X(2), E(1), E(2), X(4)])
        # the same, added in interleaved order
        out.append([N(), C(1, ka), C(2, kb), S(1, 'rule', 7000, 'block', bm='ctx'), S(2, 'rule', 7000, 'nil'), S(1, 'stat', 7000, 'pass'),
                    S(2, 'stat', 7000, 'pass'), E(2), E(1), S(1, 'rule', 8000, 'pass'), S(2, 'rule', 6000, 'block', bm='fresh'), E(1), E(2), X(1)])
        # a private chain with slots IN FRONT of the built-in ones; the other chain and a chain made afterwards have none
        out.append([N(), C(1, kb), S(1, 'stat', 7000, 'pass'), E(1), C(2, ka), S(2, 'rule', 10, 'block', bm='fresh'), S(2, 'stat', 10, 'pass'),
                    E(2), E(1), C(3, 'default'), S(3, 'stat', 20, 'pass'), E(3), E(1), E(2), X(1), X(3), X(4), X(5)])
    for s in out:
        s[0]['tr'] = tr
        tr += 1
    return out


def binding_selftest_multi(c, tp):
    """multi-chain traces: attribute one entry that called recording slots to ANOTHER chain of its trace: must be rejected"""
    groups = []
    for e in (json.loads(l) for l in open(tp)):
        if e['op'] == 'new':
            groups.append([])
        groups[-1].append(e)
    out, want = [], set()
    for gl in groups:
        if len(want) >= 30:
            break
        ids, cands = {}, []
        for i, e in enumerate(gl):
            if e['op'] == 'mchain':
                ids.setdefault(e['c'], set())
            if e['op'] == 'slot':
                ids[e['c']].add(e['id'])
            if e['op'] == 'entry' and e['calls']:
                # another chain (made before the entry) that does not hold every slot the entry called
                cands += [(i, d) for d in sorted(ids) if d != e['c'] and any(x['id'] not in ids[d] for x in e['calls'])]
        if not cands:
            continue
        i, d = c.rng.choice(cands)
        gl[i]['c'] = d
        want.add(gl[0]['tr'])
        out += gl
    if not want:
        raise MachineryError('binding self-test (several chains): no trace to corrupt')
    got = validate_lines(c, out, 'corrupt-multi')
    if got != want:
        raise MachineryError('binding self-test (several chains) failed: corrupted traces %s, rejected %s' % (sorted(want), sorted(got)))
    c.cov['binding_selftest_multi'] = '%d traces with an entry attributed to another chain, all rejected' % len(want)
    c.log('binding self-test: ' + c.cov['binding_selftest_multi'])


def nontrivial(s):
    """a chain in which the order clause, the short-circuit or the fail-open clause is actually exercised"""
    if not any(o['op'] == 'entry' for o in s):
        return False
    if s[0].get('mode') == 'multi':
        # several chains: at least two chains carry recording slots of their own and are entered
        with_slots = {o['c'] for o in s if o['op'] == 'slot'}
        return len(with_slots & {o['c'] for o in s if o['op'] == 'entry'}) >= 2
    by = {}
    for o in s:
        if o['op'] == 'slot':
            if o['beh'] in ('block', 'panic', 'panicC'):
                return True
            by.setdefault(o['k'], []).append(o['ord'])
    return any(len(v) != len(set(v)) for v in by.values())


def binding_selftest(c, tp):
    """corrupt one recorded observable in each of the first traces of a good trace file: every one must be rejected"""
    lines = [json.loads(l) for l in open(tp)]
    out, n, want, kinds = [], 0, set(), {}
    cur = []

    def corrupt(tr_lines):
        cands = []
        for i, e in enumerate(tr_lines):
            if e['op'] == 'entry' and e['calls']:
                cands.append((i, 'drop-call'))
                if len(e['calls']) >= 2:
                    cands.append((i, 'swap-calls'))
            if e['op'] == 'entry' and e.get('berr'):
                cands.append((i, 'berr-val'))
            if e['op'] in ('entry', 'exit') and e.get('st', {}).get('berrs') and not (e['op'] == 'entry' and e['blocked']):
                cands.append((i, 'berrs-later'))
            if e['op'] in ('entry', 'exit'):
                cands.append((i, 'flip-esc'))
            if e['op'] == 'exit' and any(x['k'] == 'stat' for x in e['calls']):
                cands.append((i, 'dup-completion'))
        if not cands:
            return None
        kind = c.rng.choice(sorted({k for _, k in cands}))
        i = c.rng.choice([i for i, k in cands if k == kind])
        e = tr_lines[i]
        if kind == 'drop-call':
            e['calls'].pop()
        elif kind == 'swap-calls':
            j = c.rng.randrange(len(e['calls']) - 1)
            e['calls'][j], e['calls'][j + 1] = e['calls'][j + 1], e['calls'][j]
        elif kind == 'berr-val':
            e['berr']['val'] += 1
        elif kind == 'berrs-later':
            e['st']['berrs'][0]['val'] += 1
        elif kind == 'flip-esc':
            e['esc'] = True
        elif kind == 'dup-completion':
            e['calls'].append(dict([x for x in e['calls'] if x['k'] == 'stat'][-1]))
        return kind

    groups = []
    for e in lines:
        if e['op'] == 'new':
            if len(groups) >= 40:
                break
            groups.append([])
        groups[-1].append(e)
    for gl in groups:
        kind = corrupt(gl)
        if kind:
            want.add(gl[0]['tr'])
            kinds[kind] = kinds.get(kind, 0) + 1
        out += gl
    got = validate_lines(c, out, 'corrupt')
    if got != want:
        raise MachineryError('binding self-test failed: corrupted traces %s, rejected %s' % (sorted(want), sorted(got)))
    c.cov['binding_selftest'] = '%d corrupted traces (%s), all rejected' % (len(want), ', '.join('%s x%d' % kv for kv in sorted(kinds.items())))
    c.log('binding self-test: ' + c.cov['binding_selftest'])


def classify(c, scn, obs, exp):
    """known-finding key for a confirmed mismatch, from its minimal failing pattern; None = not a known pattern.
    Pattern K_ADOPT: the mismatch is at an Entry, only the call log / outcome / held block errors differ, and a rule slot that
    hands out a result object it owns (bm own / const) has been added before."""
    if obs.get('op') != 'entry':
        return None
    comps = eclib.diff_components(obs, exp)
    if not comps or not comps <= {'calls', 'outcome', 'live.ids', 'berrs'}:
        return None
    if any(o['op'] == 'slot' and o['k'] == 'rule' and o.get('bm') in ('own', 'const') and o['beh'] == 'block' for o in scn):
        return K_ADOPT
    return None


def describe(obs, exp, line, tr):
    return ('slot-chain observable differs from the property at line %d of trace %d (op %s): differing components %s; expected %s'
            % (line, tr, obs.get('op'), sorted(eclib.diff_components(obs, exp)), exp[:500]))


def handle_mismatches(c, drv, scns, mism, tag):
    """group by failing pattern, replay the shortest scenario of each group alone, twice, in fresh processes"""
    by_tr = {s[0]['tr']: s for s in scns}
    groups = {}
    for tr, line, exp, obs in mism:
        key = classify(c, by_tr[tr], obs, exp)
        groups.setdefault(key or ('other', tr), []).append((len(by_tr[tr]), tr))
    nother = 0
    for key0, items in sorted(groups.items(), key=lambda kv: str(kv[0])):
        if isinstance(key0, tuple):
            nother += 1
            if nother > 12:
                continue
        items.sort()
        tr = items[0][1]
        s = by_tr[tr]
        rp = c.save_replay('%s-tr%d.ndjson' % (tag, tr), s)
        runs = []
        for i in range(2):       # confirm twice from the replay file in fresh processes
            m2, _ = run_and_validate(c, drv, [read_ndjson(rp)], 'confirm%d' % i)
            runs.append(m2[0] if m2 else None)
        if not runs[0] or not runs[1] or runs[0][1] != runs[1][1]:
            # not reproducible alone: the failure may need the pooled objects an earlier scenario left behind
            got = eclib.confirm_behind_predecessors(c, drv, scns, tr)
            if got:
                lines, (_, line, exp, obs) = got
                rp = c.save_replay('%s-tr%d-with-predecessors.ndjson' % (tag, tr), lines)
                if ('pooled', tag) not in c.cov.setdefault('reported', []):
                    c.cov['reported'].append(('pooled', tag))
                    c.violation('reproduced only behind its predecessor scenarios (state left in pooled objects): ' + describe(obs, exp, line, tr), rp)
                continue
            tr0, line, exp, obs = [m for m in mism if m[0] == tr][0]
            c.inconclusive.append('mismatch of %s trace %d did not reproduce from its replay file: %s OBSERVED %s' % (
                tag, tr, describe(obs, exp, line, tr)[:1200], json.dumps(obs)[:1200]))
            continue
        _, line, exp, obs = runs[1]
        key = classify(c, s, obs, exp)
        if key:
            c.cov.setdefault('mismatch_groups', {})[key] = c.cov.get('mismatch_groups', {}).get(key, 0) + len(items)
            c.log('%d mismatching traces show the pattern %s; minimal: %s' % (len(items), key, rp))
        if key and c.is_known(key):
            c.known(key, c.kf[key]['description'])
        elif not key or key not in c.cov.setdefault('reported', []):
            if key:
                c.cov['reported'].append(key)
            c.violation((WHAT[key] + ' [' + key + ']; ' if key else '') + describe(obs, exp, line, tr), rp)


def check(c, tier, replay):
    drv = c.build('c16')
    if replay:
        s = read_ndjson(replay)
        mism, _ = run_and_validate(c, drv, [s], 'replay')
        if mism:
            key = classify(c, s, mism[0][3], mism[0][2])
            if key and c.is_known(key):
                c.known(key, c.kf[key]['description'])
            else:
                c.violation('replayed scenario violates the property: ' + (WHAT[key] + ' [' + key + ']; ' if key else '') +
                            describe(mism[0][3], mism[0][2], mism[0][1], mism[0][0]), replay)
        c.cov['states'] = c.cov['transitions'] = 1
        c.sample(s[:8])
        return
    thorough = tier == 'thorough'
    # S1 ---------------------------------------------------------------------------------
    s1 = dict(MaxStat=2) if thorough else dict()
    r = c.model_check('EntryChain_MC', cfg_text=mc_cfg(CHAIN_DEFAULTS, constraint='Phased', **s1), workers=8, timeout=1500)
    if not r.completed:
        c.inconclusive.append('EntryChain.tla (chain instance): %s - the design-level spec violates its own property' % (r.violated or 'deadlock'))
    if thorough:
        r = c.model_check('EntryChain_MC', workers=8, timeout=1500,
                          cfg_text=mc_cfg(CHAIN_DEFAULTS, constraint='Phased', MaxPre=2, MaxRule=2, MaxStat=2, StatBehs={'pass', 'panic', 'panicC'},
                                          XHs={'', 'panic'}, MaxEntries=2))
        if not r.completed:
            c.inconclusive.append('EntryChain.tla (chain instance 2): %s' % (r.violated or 'deadlock'))
    multi_model_check(c, thorough)
    c.cov['exhaustive'] = True
    # S2 ---------------------------------------------------------------------------------
    scns, tr = [], 0
    gen = mc_cfg(CHAIN_DEFAULTS, check=False, constraint='PhasedEmit', MaxPre=1, MaxRule=2, MaxStat=1, MaxEntries=1 if not thorough else 2)
    r = c.tlc('EntryChain_MC', cfg_text=gen, workers=4, timeout=900, count=False)
    if r.error:
        raise MachineryError('scenario generation failed: %s\n%s' % (r.error, r.out[-2000:]))
    hs = r.json_prints()
    keep = maximal(hs)
    cap = 1200 if not thorough else 20000
    if len(keep) > cap:
        keep = c.rng.sample(keep, cap)
    for hh in keep:
        tr += 1
        scns.append(decorate(hh, tr, c.rng))
    cover_n = len(keep)
    c.log('S2 transition cover: %d transitions -> %d maximal scenarios kept' % (len(hs), cover_n))
    sim = mc_cfg(CHAIN_DEFAULTS, check=False, constraint='Emit', MaxPre=2, MaxRule=3, MaxStat=3, StatBehs={'pass', 'panic', 'panicC'},
                 XHs={'', 'ok', 'panic'}, MaxEntries=3, MaxLive=3, MaxOps=14, ErrToks={'x'}, Orders={1, 2, 3})
    r = c.tlc('EntryChain_MC', cfg_text=sim, workers=1, timeout=900, count=False,
              args=['-simulate', 'num=%d' % (150 if not thorough else 2000), '-depth', '15', '-seed', str(c.seed)])
    keep = maximal(r.json_prints())
    if len(keep) > (1500 if not thorough else 20000):
        keep = c.rng.sample(keep, 1500 if not thorough else 20000)
    for hh in keep:
        tr += 1
        scns.append(decorate(hh, tr, c.rng))
    c.log('S2 TLC simulation: %d behaviours' % len(keep))
    nrand = 500 if not thorough else 8000
    rs = random_scenarios(c, nrand, tr + 1)
    tr += nrand
    seeded = directed(tr + 1)
    tr += len(seeded)
    # several chains alive at once: transition cover of a small instance of EntryChains, TLC simulation of a larger one, random, directed
    ms = directed_multi(tr + 1)
    tr += len(ms)
    r = c.tlc('EntryChains_MC', cfg_text=multi_cfg(emit=True, MaxSlots=2, MaxEntries=1, MaxOps=6), workers=4, timeout=900, count=False)
    if r.error:
        raise MachineryError('scenario generation (several chains) failed: %s\n%s' % (r.error, r.out[-2000:]))
    keep = maximal(r.json_prints())
    ncover_multi = len(keep)
    if len(keep) > (250 if not thorough else 4000):
        keep = c.rng.sample(keep, 250 if not thorough else 4000)
    r = c.tlc('EntryChains_MC', workers=1, timeout=900, count=False,
              cfg_text=multi_cfg(emit=True, SlotKinds={'pre', 'rule', 'stat'}, Orders={1, 2, 3}, RuleBehs={'pass', 'nil', 'ctx', 'block', 'panic'},
                                 MaxChains=3, MaxSlots=6, MaxEntries=4, MaxLive=3, MaxOps=14),
              args=['-simulate', 'num=%d' % (100 if not thorough else 1500), '-depth', '15', '-seed', str(c.seed)])
    if r.error:
        raise MachineryError('scenario simulation (several chains) failed: %s\n%s' % (r.error, r.out[-2000:]))
    keep2 = maximal(r.json_prints())
    if len(keep2) > (250 if not thorough else 4000):
        keep2 = c.rng.sample(keep2, 250 if not thorough else 4000)
    for hh in keep + keep2:
        tr += 1
        ms.append(decorate_multi(hh, tr, c.rng))
    nrm = 250 if not thorough else 3000
    ms += random_multi(c, nrm, tr + 1)
    tr += nrm
    c.log('S2 several chains: %d directed, %d of %d transition-cover, %d simulated, %d random scenarios' % (
        len(directed_multi(0)), len(keep), ncover_multi, len(keep2), nrm))
    # S3 + S4 ----------------------------------------------------------------------------
    allm, allparts = [], []
    for tag, group in (('directed', seeded), ('tlc', scns), ('rand', rs), ('multi', ms)):
        for i in range(0, len(group), 3000):
            part = group[i:i + 3000]
            mism, tp = run_and_validate(c, drv, part, '%s%d' % (tag, i))
            if tag != 'directed' and 'binding_selftest' not in c.cov:
                bad = {m[0] for m in mism}       # the self-test needs good traces: drop the mismatching ones
                keepl, cur = [], None
                for e in (json.loads(l) for l in open(tp)):
                    if e['op'] == 'new':
                        cur = e['tr']
                    if cur not in bad:
                        keepl.append(e)
                gp = os.path.join(c.scratch, 'good.ndjson')
                write_ndjson(gp, keepl)
                binding_selftest(c, gp)
            if tag == 'multi' and 'binding_selftest_multi' not in c.cov and not mism:
                binding_selftest_multi(c, tp)
            c.cov['conformance_mismatches'] += len(mism)
            allm += [(tag, m) for m in mism]
            allparts += part
    for tag in ('directed', 'tlc', 'rand', 'multi'):
        handle_mismatches(c, drv, allparts, [m for t, m in allm if t == tag], tag)
    # free-running goroutines on one chain (repeated, late and SIMULTANEOUS Exit calls of the same entry): every statistic slot
    # is told of completion exactly once per passed entry - judged at quiescence by EntryChain_Trace!TStress
    st = []
    for k, (w, it) in enumerate([(8, 300), (8, 300)] if tier != 'thorough' else [(16, 3000)] * 4):
        tr += 1
        st.append([dict(op='new', tr=tr, mode='stat', t=100, nodes=['r1', 'r2', '_in']),
                   dict(op='slot', k='pre', ord=1000, beh='real'), dict(op='slot', k='rule', ord=1, beh='script', bm='ctx'),
                   dict(op='slot', k='stat', ord=1000, beh='real'), dict(op='slot', k='stat', ord=2000, beh='pass'),
                   dict(op='stress', workers=w, iters=it, seed=c.seed * 10 + k, panic_pct=0, res=['r1', 'r2'])])
    mism, tp = run_and_validate(c, drv, st, 'stress0')
    for tr0, line, exp, obs in mism:
        s0 = [x for x in st if x[0]['tr'] == tr0][0]
        rp = c.save_replay('stress-tr%d.ndjson' % tr0, s0)
        again = [run_and_validate(c, drv, [s0], 'stress-confirm%d' % i)[0] for i in range(3)]
        if sum(1 for a in again if a) >= 2:
            c.violation('free-running Entry / Exit (incl. simultaneous Exit calls of one entry): a passed entry is not completed exactly once on every statistic slot: '
                        + json.dumps(obs.get('rec'))[:300] + ' expected ' + exp[:300], rp)
        else:
            c.inconclusive.append('stress mismatch of trace %d did not reproduce' % tr0)
        break
    c.cov.pop('reported', None)
    if 'binding_selftest' not in c.cov:
        c.inconclusive.append('binding self-test did not run')
    allscn = seeded + scns + rs + ms
    c.cov['multi_chain_scenarios'] = len(ms)
    c.cov['distinct_nontrivial'] = len({json.dumps(s[1:], sort_keys=True) for s in allscn if nontrivial(s)})
    c.cov['rule'] = ('scenarios = one per transition of a bounded chain instance of EntryChain (%d) + TLC random simulation + seeded random '
                     'chains, each followed by traffic that recycles pooled objects; non-trivial = distinct scenario with at least one entry '
                     'whose chain has two slots of a kind with the same order value, or a blocking slot, or a panicking slot; scenarios with '
                     'several chains (made by base.NewSlotChain / api.BuildDefaultSlotChain / api.GlobalSlotChain): non-trivial = at least two '
                     'chains carry recording slots of their own and are entered' % cover_n)
    c.sample(scns[len(scns) // 2][:10])
    c.sample(rs[0][:12])
    c.sample(ms[-1][:14])
    c.assumptions += ['slot kinds are phases: prepare slots run before rule-check slots before statistic slots (interface documentation of base.SlotChain)',
                      'until the first panic of an Entry the call log is the panic-free one (an implementation cannot foresee a panic); what is called '
                      'after a panic is left open, as is whether completion is announced for an entry admitted through a panic',
                      'chains are assembled single-threaded (Add*Slot is documented as not thread safe)',
                      'TLC model checking is exhaustive only for the bounded instances listed in tlc_runs']
    if tier == 'thorough':
        composition_stage(c)


def composition_stage(c):
    """thorough tier: the REAL default chain with flow + isolation + hot-parameter + breaker rules on one resource, judged against
    the composed specification (checks/COMPOSE.py, spec/SentinelOps.tla): first blocking slot wins, nothing after it runs"""
    import stages
    stages.run_stage(c, 'COMPOSE', 'composition_stage')


main('C16', check)
