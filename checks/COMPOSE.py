"""COMPOSE - the default global slot chain with every rule kind loaded at once (growth item 1 of DESIGN section 4).

Not one of the twenty properties: it validates whole-API executions against the COMPOSITION of the module specs
(spec/SentinelOps.tla): system -> flow -> isolation -> hot-parameter (concurrency, then QPS) -> circuit breaker on one or two
resources, inbound / outbound entries, system rules on the global inbound node, reloads of every module while entries are in
flight, completions with an error (Exit(WithError) / api.TraceError), late and repeated calls.  The first blocking slot wins
and nothing after it runs; only admitted requests shape any module's state (one exception, the design of the code: the token
bucket of a hot-parameter QPS rule is charged when the hotspot slot is passed, also when the breaker then refuses).
It backs C16 (short-circuit / order in the real default chain), C07, C02, C04, C05, C06, C03, C14 (their clauses in the presence
of the other modules); `bin/check C16 thorough` runs it as an extra stage.

S1  TLC checks spec/Sentinel.tla on several bounded instances (run side by side): the single-module caps, gauge conservation,
    ChainExact (with its corollaries SystemFirst, ReloadRespected, BreakerQuiet), BlockedInvisible, Independence,
    IndependentDecision, ReloadKeeps; eight spec-level mutants must each be rejected by the clause named for it.
S2  scenarios: one per transition of small bounded instances, TLC simulations, seeded random histories, directed ones.
S3  harness/cmd/c21 (public API only, virtual clock in 500 ms ticks).
S4  spec/Sentinel_Trace.tla judges every decision, block type and gauge.
"""
import json, os, time, threading
from vlib import main, write_ndjson, read_ndjson, MachineryError

CFG = """SPECIFICATION Spec
CONSTANTS
  Res = %(Res)s
  Rules <- %(Rules)s
  Reloads <- %(Reloads)s
  Args = %(Args)s
  Batches = %(Batches)s
  Types = %(Types)s
  Steps = %(Steps)s
  MaxOps = %(MaxOps)d
  MaxT = %(MaxT)d
  MaxRel = %(MaxRel)d
  WithTrace = %(WithTrace)s
  WithLate = %(WithLate)s
  Mut = "%(Mut)s"
%(view)s
%(props)s
CHECK_DEADLOCK FALSE
%(extra)s"""
INV = 'GaugeConserved HotConserved IsoCap HotCap FlowCap SysCap HqRange'
ACT = 'ChainExact BlockedInvisible Independence ReloadKeeps'
COROLLARIES = 'SystemFirst ReloadRespected BreakerQuiet'      # implied by ChainExact: checked in the thorough tier and by the mutants
A2, A3, AN = '{"a", "none"}', '{"a", "b", "none"}', '{"none"}'
IO, OUT, IN = '{"in", "out"}', '{"out"}', '{"in"}'


def inst(name, Rules, Res='{1}', Reloads='None', Args=A2, Batches='{1}', Types=IO, Steps='{1, 2}', MaxOps=3, MaxT=5, MaxRel=0,
         WithTrace='FALSE', WithLate='FALSE', Mut='none', inv=INV, act=ACT, extra='', view='VIEW view'):
    d = dict(locals())
    d['props'] = ('INVARIANTS %s\n' % inv if inv else '') + ('PROPERTIES %s\n' % act if act else '')
    return d


def instances(thorough):
    """bounded instances of Sentinel.tla: one question each, so that no single state space is huge"""
    k = 1 if thorough else 0
    act = ACT + (' ' + COROLLARIES if thorough else '')
    return [
        # every subset of {flow, isolation, hot-parameter concurrency, breaker} with and without a system concurrency rule
        inst('chain', 'MCChain', MaxOps=3 + k, act=act),
        # batch counts > 1, thresholds > 1, everything loaded
        inst('batch', 'MCBatch', Batches='{1, 2}', MaxOps=4 + k, MaxT=4 + k, act=ACT + ' ' + COROLLARIES),
        # the system QPS rule (inbound window) next to a flow rule (resource window)
        inst('sysqps', 'MCSysQ', Args=AN, Batches='{1, 2}', MaxOps=3 + k, MaxT=4 + k, act=act),
        # hot-parameter QPS rule next to the concurrency rule, a flow rule and the breaker
        inst('hotqps', 'MCHq', Args='{"a", "b"}', Batches='{1, 2}', Types=OUT, Steps='{1, 3}' if not thorough else '{1, 2, 3}', MaxOps=3 + k, MaxT=6 + k, act=act),
        # reloads of every module while entries are in flight
        inst('reload', 'MCReload', Reloads='MCReloads', Types=IN, Steps='{2}', MaxOps=4 + k, MaxRel=2, WithTrace='TRUE', act=act),
        inst('reloadhq', 'MCReloadHq', Reloads='MCReloadsHq', Args='{"a"}', Types=OUT, Steps='{2, 3}', MaxOps=4 + k, MaxT=7, MaxRel=2, act=act),
        # two resources under one system rule
        inst('two', 'MCTwo', Res='{1, 2}', Reloads='MCReloadsTwo', Types=IO, Steps='{2}', MaxOps=3 + k, MaxT=3, MaxRel=1,
             inv=INV + ' IndependentDecision', act=act),
    ]


# spec-level mutants: (Mut, instance to run it on, the clause that must reject it)
MUTANTS = [
    ('sysAfterFlow', 'chain', 'SystemFirst'),          # system slot consulted after the flow slot
    ('sysOutbound', 'chain', 'SystemFirst'),           # system rules applied to outbound entries
    ('hotBeforeFlow', 'hotqps', 'BlockedInvisible'),   # hotspot slot before the flow slot: a flow-blocked request has spent hot-parameter tokens
    ('blockedCounts', 'chain', 'BlockedInvisible'),    # a blocked request occupies a hot-parameter unit
    ('isoReset', 'reload', 'GaugeConserved'),          # an isolation reload resets the in-flight gauge
    ('exitCurrent', 'reload', 'HotConserved'),         # an exit releases a unit of whatever counter is current (the code before 833b358)
    ('cbForget', 'reload', 'ReloadKeeps'),             # an identical breaker reload forgets the breaker's state
    ('shared', 'two', 'IndependentDecision'),          # one hot-parameter counter for all resources
]


def cfg_of(d, **over):
    d = dict(d, **over)
    if 'inv' in over or 'act' in over:
        d['props'] = ('INVARIANTS %s\n' % d['inv'] if d['inv'] else '') + ('PROPERTIES %s\n' % d['act'] if d['act'] else '')
    return CFG % d


def parallel(c, jobs):
    """run several TLC jobs side by side (c.tlc is synchronous); jobs = [(key, kwargs)] -> {key: TLCResult}"""
    out, errs = {}, []

    def work(key, kw):
        try:
            out[key] = c.tlc('Sentinel_MC', **kw)
        except Exception as e:       # noqa
            errs.append('%s: %s' % (key, e))
    ths = []
    for key, kw in jobs:
        t = threading.Thread(target=work, args=(key, kw))
        t.start()
        ths.append(t)
        time.sleep(0.3)              # c.tlc numbers its scratch directories: never start two in the same instant
    for t in ths:
        t.join()
    if errs:
        raise MachineryError('TLC jobs failed: ' + '; '.join(errs))
    return out


def tlc_jobs(c, thorough):
    """every TLC run of S1 and S2, started side by side: the bounded instances, the spec-level mutants, the scenario generators"""
    insts = instances(thorough)
    jobs = [(d['name'], dict(cfg_text=cfg_of(d), workers=4 if not thorough else 8, timeout=240 if not thorough else 2400,
                             heap='6g' if not thorough else '10g')) for d in insts]
    jobs += [('gen%d' % i, dict(cfg_text=cfg_of(inst('gen', inv='', act='', extra='ACTION_CONSTRAINT Emit\n', **{k: v for k, v in g.items() if k != 'cap'})),
                                workers=2, timeout=600, count=False, heap='2g')) for i, g in enumerate(GEN)]
    nsim = 60 if not thorough else 1200
    jobs += [('sim%d' % i, dict(cfg_text=cfg_of(inst('sim', inv='', act='', extra='ACTION_CONSTRAINT Emit\n', **g)), workers=1, timeout=600, count=False, heap='2g',
                                args=['-simulate', 'num=%d' % nsim, '-depth', str(depth), '-seed', str(c.seed)]))
             for i, (g, depth) in enumerate(SIM)]
    by = {d['name']: d for d in insts}
    for mut, on, clause in MUTANTS:
        isinv = clause in INV.split() + ['IndependentDecision']
        jobs.append((mut, dict(cfg_text=cfg_of(by[on], Mut=mut, inv=clause if isinv else '', act='' if isinv else clause), workers=2,
                               timeout=300, count=False, heap='2g')))
    return insts, jobs


def model_check(c, insts, res):
    per = {}
    for d in insts:
        r = res[d['name']]
        if r.error:
            raise MachineryError('TLC failed on Sentinel instance %s: %s\n%s' % (d['name'], r.error, r.out[-2500:]))
        c.cov['states'] += r.distinct
        c.cov['transitions'] += r.generated
        per[d['name']] = r.distinct
        c.log('S1 Sentinel/%s: %d distinct states, %d transitions, depth %d, %.0fs -> %s' % (
            d['name'], r.distinct, r.generated, r.depth, r.wall, 'no error' if r.completed else 'VIOLATED ' + str(r.violated or 'deadlock')))
        if not r.completed:
            c.inconclusive.append('Sentinel.tla instance %s: %s violated - the composed design model is wrong' % (d['name'], r.violated))
    c.cov['instances'] = per
    c.cov['exhaustive'] = True
    # the clauses are not vacuous: every deliberately broken composition is rejected by the clause named for it
    rejected = []
    for mut, on, clause in MUTANTS:
        r = res[mut]
        if r.violated != clause:
            raise MachineryError('spec-level mutant %s was not rejected by %s on instance %s (%s)\n%s' % (
                mut, clause, on, r.violated or r.error or 'no error', r.out[-1500:]))
        rejected.append('%s: %s' % (mut, clause))
    c.cov['spec_mutants_rejected'] = rejected
    c.log('S1 %d spec-level mutants, each rejected by its clause: %s' % (len(rejected), ', '.join(rejected)))


# ------------------------------------------------------------------------------------------------ scenarios
def raw_hists(r):
    """the histories printed by PrintT(ToJson(h')) as JSON TEXT (parsed only once they are chosen)"""
    out = []
    for l in r.out.splitlines():
        if l.startswith('"['):
            try:
                out.append(json.loads(l))
            except Exception:       # noqa
                pass
    return out


def maximal(texts):
    """drop every history that is a proper prefix of another one (h' = Append(h, op): a prefix of the text up to the bracket)"""
    keys = sorted(t[:-1] for t in texts)
    out = []
    for i, k in enumerate(keys):
        if i + 1 < len(keys) and keys[i + 1].startswith(k) and (keys[i + 1] == k or keys[i + 1][len(k)] == ','):
            continue
        out.append(k + ']')
    return out


def pick(rng, hs, k):
    """a sample of k histories: the verdict of an Entry is what is judged, so histories that END with an Entry come first, and
    among them those with a reload before it"""
    if len(hs) > k:
        last = lambda t: t[t.rfind('"op":"') + 6:t.rfind('"op":"') + 11]
        ent = [t for t in hs if last(t) == 'enter']
        a = [t for t in ent if '"op":"reload"' in t]
        b = [t for t in ent if '"op":"reload"' not in t]
        rest = [t for t in hs if last(t) != 'enter']
        out = rng.sample(a, min(len(a), k // 2))
        out += rng.sample(b, min(len(b), (k - len(out)) * 2 // 3))
        out += rng.sample(rest, min(len(rest), k - len(out)))
        hs = out
    return [json.loads(t) for t in hs]


def from_hist(hist, tr, t0=1):
    s = []
    for o in hist:
        o = dict(o)
        if o['op'] == 'new':
            o.update(tr=tr, t0=t0)
        elif o['op'] == 'enter':
            o.pop('ok', None)        # what the MODEL decided is not an input of the driver
            o.pop('bt', None)
        s.append(o)
    return s


NORULE = dict(flow=-1, iso=-1, hot=-1, hq=-1, hqB=0, hqD=1, cbE=-1, cbTO=1)


def rand_rr(rng):
    return dict(flow=rng.choice([-1, -1, 0, 1, 2, 3, 5]), iso=rng.choice([-1, -1, 1, 2, 3]), hot=rng.choice([-1, -1, 0, 1, 2]),
                hq=rng.choice([-1, -1, -1, 0, 1, 2, 3]), hqB=rng.choice([0, 0, 0, 1, 2]), hqD=rng.choice([1, 1, 2]),
                cbE=rng.choice([-1, -1, 0, 1, 1, 2, 3]), cbTO=rng.choice([1, 2, 3, 6]))


def rand_sys(rng):
    if rng.random() < 0.4:
        return dict(conc=-1, qps=-1)
    return dict(conc=rng.choice([-1, 0, 1, 2, 3]), qps=rng.choice([-1, -1, 0, 1, 2, 4]))


def rand_reload(rng, R, bounce=False):
    """a reload op (without via) for the current rule table R; updates R"""
    n = len(R['res'])
    mod = rng.choice(['flow', 'iso', 'hot', 'hot', 'hq', 'cb', 'cb', 'sys'])
    same = rng.random() < 0.25
    if bounce:                       # the rule is taken away (the caller then loads it again, changed or not): its runtime state starts afresh
        r = rng.randint(1, n)
        mod = rng.choice(['hot', 'hot', 'hq', 'cb'])
        cur = R['res'][r - 1]
        val = dict(v=-1) if mod == 'hot' else dict(hq=-1, hqB=cur['hqB'], hqD=cur['hqD']) if mod == 'hq' else dict(cbE=-1, cbTO=cur['cbTO'])
        cur.update({mod: -1} if mod == 'hot' else val)
        return dict(op='reload', r=r, mod=mod, val=val)
    if mod == 'sys':
        val = dict(R['sys']) if same else rand_sys(rng)
        R['sys'] = dict(val)
        return dict(op='reload', r=0, mod='sys', val=val)
    r = rng.randint(1, n)
    cur = R['res'][r - 1]
    new = rand_rr(rng)
    if mod in ('flow', 'iso', 'hot'):
        v = cur[mod] if same else rng.choice([new[mod], -1, cur[mod] + 1 if cur[mod] >= 0 else 1, max(cur[mod] - 1, 1 if mod == 'iso' else 0) if cur[mod] >= 0 else 2])
        cur[mod] = v
        return dict(op='reload', r=r, mod=mod, val=dict(v=v))
    if mod == 'hq':
        val = dict(hq=cur['hq'], hqB=cur['hqB'], hqD=cur['hqD']) if same else dict(hq=new['hq'], hqB=new['hqB'], hqD=rng.choice([cur['hqD'], cur['hqD'], new['hqD']]))
    else:
        val = dict(cbE=cur['cbE'], cbTO=cur['cbTO']) if same else dict(cbE=new['cbE'], cbTO=rng.choice([cur['cbTO'], new['cbTO']]))
    cur.update(val)
    return dict(op='reload', r=r, mod=mod, val=val)


def random_scenario(rng, tr):
    n = rng.choice([1, 1, 2])
    R = dict(sys=rand_sys(rng), res=[rand_rr(rng) for _ in range(n)])
    s = [dict(op='new', tr=tr, rules=json.loads(json.dumps(R)), t0=rng.choice([1, 2, 7]))]
    pin = 0.75 if (R['sys']['conc'] >= 0 or R['sys']['qps'] >= 0) else 0.3
    preload = rng.random() < 0.5       # half of the histories replace rules under traffic
    live, done, nid = [], [], 0
    for _ in range(rng.randint(8, 44)):
        x = rng.random()
        if x < 0.46:
            nid += 1
            s.append(dict(op='enter', r=rng.randint(1, n), id=nid, b=rng.choice([1, 1, 1, 2, 3]), arg=rng.choice(['a', 'a', 'b', 'c', 'none']),
                          ty='in' if rng.random() < pin else 'out'))
            live.append(nid)           # (a refused request is simply ignored by the later ops on its id)
        elif x < 0.72 and live:
            i = rng.choice([0, -1, rng.randrange(len(live))])
            e = live.pop(i)
            done.append(e)
            s.append(dict(op='exit', id=e, err=rng.random() < 0.45, via=rng.choice(['exit', 'trace'])))
        elif x < 0.76 and live:
            s.append(dict(op='trace', id=rng.choice(live)))
        elif x < 0.80 and done:
            s.append(dict(op='late', id=rng.choice(done), how=rng.choice(['exit', 'exiterr', 'trace'])))
        elif x < 0.88 and preload:
            if rng.random() < 0.25:    # remove a rule and load one of the same kind again at once
                o = rand_reload(rng, R, bounce=True)
                o['via'] = rng.choice(['res', 'res', 'all'])
                s.append(o)
                new = rand_rr(rng)
                while new[dict(hot='hot', hq='hq', cb='cbE')[o['mod']]] < 0:
                    new = rand_rr(rng)
                cur = R['res'][o['r'] - 1]
                val = dict(v=new['hot']) if o['mod'] == 'hot' else dict(hq=new['hq'], hqB=new['hqB'], hqD=new['hqD']) if o['mod'] == 'hq' else dict(cbE=new['cbE'], cbTO=new['cbTO'])
                cur.update(dict(hot=new['hot']) if o['mod'] == 'hot' else val)
                s.append(dict(op='reload', r=o['r'], mod=o['mod'], val=val, via=rng.choice(['res', 'res', 'all'])))
                continue
            o = rand_reload(rng, R)
            o['via'] = rng.choice(['res', 'res', 'all'])
            s.append(o)
        else:
            tos = [rr['cbTO'] for rr in R['res']] + [2 * rr['hqD'] + 1 for rr in R['res']]
            s.append(dict(op='tick', d=rng.choice([1, 1, 2, 3] + tos + [t + 1 for t in tos])))
    return s


def directed(tr0):
    """hand-written histories, one per clause that a reload / the system slot adds"""
    out = []

    def S(rules, *ops):
        out.append([dict(op='new', tr=tr0 + len(out) + 1, rules=rules, t0=1)] + list(ops))

    def R1(sys=None, **kw):
        return dict(sys=sys or dict(conc=-1, qps=-1), res=[dict(NORULE, **kw)])
    E = lambda i, arg='a', ty='out', b=1, r=1: dict(op='enter', r=r, id=i, b=b, arg=arg, ty=ty)
    X = lambda i, err=False, via='exit': dict(op='exit', id=i, err=err, via=via)
    T = lambda d: dict(op='tick', d=d)
    RL = lambda mod, val, r=1, via='res': dict(op='reload', r=r, mod=mod, val=val, via=via)
    for via in ('res', 'all'):
        # /repo 833b358: entries admitted before the hotspot rule was replaced must not release units of the new counters
        S(R1(hot=2), E(1), E(2), RL('hot', dict(v=-1), via=via), RL('hot', dict(v=2), via=via), E(3), E(4), X(1), X(2), E(5), X(3), E(6), E(7))
        # a mere change of threshold keeps the counters
        S(R1(hot=2), E(1), E(2), RL('hot', dict(v=3), via=via), E(3), E(4), RL('hot', dict(v=1), via=via), X(1), E(5), X(2), X(3), E(6), E(7))
        # isolation: the gauge survives a reload, the new threshold applies at once
        S(R1(iso=2), E(1), E(2), E(3), RL('iso', dict(v=3), via=via), E(4), E(5), RL('iso', dict(v=1), via=via), X(1), X(2), E(6), X(4), E(7))
        # flow: the window survives a reload
        S(R1(flow=2), E(1, b=2), E(2), RL('flow', dict(v=3), via=via), E(3), E(4), T(1), E(5), T(1), E(6, b=3), RL('flow', dict(v=-1), via=via), E(7, b=3), RL('flow', dict(v=1), via=via), E(8))
        # breaker: identical reload keeps Open, changed one starts Closed (on the same counters), timeout of the rule in force
        S(R1(cbE=1, cbTO=2), E(1), X(1, True), E(2), RL('cb', dict(cbE=1, cbTO=2), via=via), E(3), T(2), E(4), X(4, True, 'trace'), E(5),
          RL('cb', dict(cbE=2, cbTO=2), via=via), E(6), X(6), E(7), RL('cb', dict(cbE=3, cbTO=3), via=via), E(8), X(8, True), E(9), T(2), E(10), T(1), E(11))
        # hot-parameter QPS: buckets survive a change of threshold, restart when the duration changes
        S(R1(hq=2), E(1, b=2), E(2), RL('hq', dict(hq=3, hqB=0, hqD=1), via=via), E(3), T(3), E(4, b=3), E(5), RL('hq', dict(hq=3, hqB=0, hqD=2), via=via), E(6, b=3), E(7))
    # system slot first: an inbound request refused by the system rule consumes no flow quota, no hot-parameter token, is no probe
    S(R1(sys=dict(conc=1, qps=-1), flow=2, hq=1, cbE=1, cbTO=2), E(1, ty='in'), E(2, ty='in'), E(3, ty='out'), E(4, ty='out'), X(1, True),
      E(5, 'b', 'in'), T(2), E(6, 'b', 'in'), E(7, 'b', 'in'), E(8, 'b', 'out'))
    S(R1(sys=dict(conc=-1, qps=2), flow=5), E(1, ty='in', b=2), E(2, ty='in'), E(3, ty='out'), T(1), E(4, ty='in'), T(1), E(5, ty='in'), E(6, ty='in'), E(7, ty='in'),
      RL('sys', dict(conc=-1, qps=4), r=0), E(8, ty='in'), E(9, ty='in', b=3), E(10, ty='in'))
    # a request that passed the hotspot slot and is refused by the breaker has spent its hot-parameter tokens
    S(R1(hq=2, cbE=1, cbTO=2), E(1), X(1, True), E(2), T(2), E(3), E(4), X(3), E(5))
    # two resources: r2 never changes a verdict on r1 except through the inbound node
    two = dict(sys=dict(conc=2, qps=-1), res=[dict(NORULE, flow=1, hot=1), dict(NORULE, iso=1, cbE=1, cbTO=2)])
    S(two, E(1, r=2, ty='in'), E(2, r=2, ty='out'), E(3, r=1, ty='in'), E(4, r=1, ty='in'), E(5, r=2, ty='in'), X(1, True), E(6, r=1, ty='in'), T(2), E(7, r=1, ty='in'),
      E(8, r=2, ty='in'), E(9, r=1, arg='b', ty='in'), X(3), X(7), E(10, r=1, arg='b', ty='in'))
    # late and repeated calls change nothing
    S(R1(sys=dict(conc=2, qps=-1), iso=1, hot=1, cbE=1, cbTO=2), E(1, ty='in'), X(1), dict(op='late', id=1, how='exiterr'), dict(op='late', id=1, how='trace'),
      dict(op='late', id=1, how='exit'), E(2, ty='in'), dict(op='late', id=1, how='exiterr'), E(3, ty='in'), X(2), E(4, ty='in'))
    return out


# ------------------------------------------------------------------------------------------------ drive / validate
def run_and_validate(c, drv, scns, tag):
    sp = os.path.join(c.scratch, tag + '.scn.ndjson')
    tp = os.path.join(c.scratch, tag + '.trace.ndjson')
    write_ndjson(sp, [o for s in scns for o in s])
    c.run([drv, sp, tp], timeout=900)
    lines = open(tp).read().splitlines()
    mism, consumed, r = c.validate('Sentinel_Trace', tp, len(lines))
    if consumed != len(lines):
        raise MachineryError('%s: trace validation consumed %d of %d lines\n%s' % (tag, consumed, len(lines), r.out[-1500:]))
    c.cov['traces_validated_against_impl'] += len(scns)
    c.cov['evaluations'] += len(lines)
    c.log('S3/S4 %s: %d scenarios, %d events validated in %.0fs, %d mismatching traces' % (tag, len(scns), len(lines), r.wall, len(mism)))
    return [(tr, ln, exp + '  OBSERVED: ' + lines[ln - 1][:300]) for tr, ln, exp in mism], tp


def handle(c, drv, scns, mism, tag):
    by = {s[0]['tr']: s for s in scns}
    for tr, line, exp in mism:
        if len(c.violations) >= 5:
            break
        s = by[tr]
        rp = c.save_replay('%s-tr%d.ndjson' % (tag, tr), s)
        ok = sum(1 for i in range(2) if run_and_validate(c, drv, [s], 'confirm%d' % i)[0])
        if ok < 2:
            c.inconclusive.append('mismatch of %s trace %d did not reproduce (%d/2)' % (tag, tr, ok))
            continue
        c.violation('decision / block type / gauge of the real default chain differs from the composition at line %d of trace %d: %s' % (line, tr, exp[:700]), rp)


def binding_selftest(c, tp):
    """corrupt ONE recorded observable (decision, block type or a gauge) in each of the first traces: every one must be rejected"""
    lines = [json.loads(l) for l in open(tp)]
    out, want, n, done = [], set(), 0, True
    for e in lines:
        if e['op'] == 'new':
            n += 1
            if n > 60:
                break
            done = False
        elif e['op'] in ('enter', 'exit') and not done and c.rng.random() < 0.4:
            e = dict(e)
            k = c.rng.randrange(3) if e['op'] == 'enter' else 2
            if k == 0 and e['ok']:
                e['ok'], e['bt'] = False, 'flow'
            elif k <= 1 and not e['ok']:
                e['bt'] = 'breaker' if e['bt'] != 'breaker' else 'system'
            elif c.rng.random() < 0.5:
                e['gi'] += 1
            else:
                e['gr'] += 1
            done = True
            want.add(n)
        out.append(e)
    cp = os.path.join(c.scratch, 'corrupt.ndjson')
    write_ndjson(cp, out)
    mism, consumed, r = c.validate('Sentinel_Trace', cp, len(out))
    trs, k = {}, 0
    for e in out:
        if e['op'] == 'new':
            k += 1
            trs[e['tr']] = k
    got = {trs[m[0]] for m in mism}
    if got != want or len(want) < 10:
        raise MachineryError('binding self-test failed: corrupted %s, rejected %s' % (sorted(want), sorted(got)))
    c.cov['binding_selftest'] = '%d corrupted traces, all rejected' % len(want)
    c.log('binding self-test: %d corrupted traces, all rejected' % len(want))


GEN = [  # small instances whose every transition becomes a scenario
    dict(Rules='MCGen1', Reloads='MCReloadsGen', Steps='{2}', MaxOps=3, MaxT=3, MaxRel=1),
    dict(Rules='MCGen2', Res='{1, 2}', Reloads='MCReloadsTwo', Steps='{2}', MaxOps=3, MaxT=3, MaxRel=1),
    # (no VIEW: histories that end in the same abstract state are NOT merged - for the real code they may differ)
    dict(Rules='MCGenHot', Reloads='MCReloadsHot', Args='{"a"}', Types=OUT, Steps='{}', MaxOps=3, MaxT=1, MaxRel=2, view='', cap=5000),
]
SIM = [  # (instance, depth): TLC random walks through much larger bounds
    (dict(Rules='MCChain', Args=A3, Batches='{1, 2}', MaxOps=14, MaxT=16, WithTrace='TRUE', WithLate='TRUE'), 30),
    (dict(Rules='MCReload', Reloads='MCReloads', Args=A3, Batches='{1, 2}', MaxOps=14, MaxT=16, MaxRel=5, WithTrace='TRUE'), 34),
    (dict(Rules='MCHq', Reloads='MCReloadsHq', Args=A3, Batches='{1, 2}', Steps='{1, 2, 3}', MaxOps=14, MaxT=20, MaxRel=3), 34),
    (dict(Rules='MCTwo', Res='{1, 2}', Reloads='MCReloadsTwo', Batches='{1, 2}', MaxOps=14, MaxT=14, MaxRel=3, WithLate='TRUE'), 34),
]


def scenarios(c, thorough, res):
    scns, tr = [], 0
    cap = 2500 if not thorough else 30000
    ncover = 0
    for i in range(len(GEN)):
        r = res['gen%d' % i]
        if not (r.completed or r.deadlock):
            raise MachineryError('scenario generation (gen%d) failed: %s\n%s' % (i, r.error or r.violated, r.out[-1500:]))
        hs = maximal(raw_hists(r))
        k = max(cap, GEN[i].get('cap', 0))
        hs = pick(c.rng, hs, k)
        for h in hs:
            tr += 1
            scns.append(from_hist(h, tr))
        ncover += len(hs)
    nsimu = 0
    for i in range(len(SIM)):
        # (in simulation mode TLC evaluates the constraint on every candidate successor: the walks and their one-step siblings)
        hs = maximal(raw_hists(res['sim%d' % i]))
        if len(hs) > cap // 3:
            hs = sorted(hs, key=len)[-cap // 6:] + c.rng.sample(hs, cap // 6)
        for h in [json.loads(t) for t in hs]:
            tr += 1
            nsimu += 1
            scns.append(from_hist(h, tr))
    for _ in range(2000 if not thorough else 40000):
        tr += 1
        scns.append(random_scenario(c.rng, tr))
    d = directed(tr)
    scns += d
    c.log('S2: %d transition-cover scenarios, %d TLC simulations, %d seeded random histories, %d directed' % (
        ncover, nsimu, len(scns) - ncover - nsimu - len(d), len(d)))
    return scns


def check(c, tier, replay):
    drv = c.build('c21')
    if replay:
        s = read_ndjson(replay)
        mism, _ = run_and_validate(c, drv, [s], 'replay')
        if mism:
            c.violation('replayed scenario differs from the composition: %s' % mism[0][2][:500], replay)
        c.cov['states'] = c.cov['transitions'] = 1
        c.sample(s[:6])
        return
    thorough = tier == 'thorough'
    insts, jobs = tlc_jobs(c, thorough)
    res = parallel(c, jobs)
    model_check(c, insts, res)
    scns = scenarios(c, thorough, res)
    first = True
    for i in range(0, len(scns), 5000):
        part = scns[i:i + 5000]
        mism, tp = run_and_validate(c, drv, part, 'compose%d' % i)
        c.cov['conformance_mismatches'] += len(mism)
        handle(c, drv, part, mism, 'compose')
        if first and not c.violations:
            binding_selftest(c, tp)
            first = False

    def kinds(s):
        R = s[0]['rules']
        k = {m for rr in R['res'] for m in ('flow', 'iso', 'hot', 'hq', 'cbE') if rr[m] >= 0}
        k |= {'sys'} if R['sys']['conc'] >= 0 or R['sys']['qps'] >= 0 else set()
        k |= {o['mod'] for o in s if o['op'] == 'reload'}
        return k
    c.cov['distinct_nontrivial'] = len({json.dumps(s[1:], sort_keys=True) + json.dumps(s[0]['rules'], sort_keys=True) for s in scns if len(kinds(s)) >= 2})
    c.cov['rule'] = 'non-trivial = distinct scenario in which at least two rule kinds (system, flow, isolation, hot-parameter concurrency / QPS, breaker) are loaded or reloaded'
    c.cov['scenarios_with_reload'] = sum(1 for s in scns if any(o['op'] == 'reload' for o in s))
    c.cov['scenarios_with_system_rule'] = sum(1 for s in scns if s[0]['rules']['sys']['conc'] >= 0 or s[0]['rules']['sys']['qps'] >= 0)
    c.cov['scenarios_with_two_resources'] = sum(1 for s in scns if len(s[0]['rules']['res']) == 2)
    c.sample(scns[0][:8])
    c.sample(scns[-1][:10])
    c.assumptions += ['one rule per kind and resource (hot-parameter: the concurrency rule before the QPS rule); breaker: error-count strategy, minimum amount 1, '
                      'probe number 0, statistic bucket that does not roll within a scenario; one tick = 500 ms (the bucket length of the default statistic); '
                      'hot-parameter QPS: reject mode, the operators of HotParamQpsOps with the cache far from its capacity; system rules: Concurrency and '
                      'InboundQPS; operations are sequential (no two calls overlap)']


main('COMPOSE', check)
