"""COMPOSE - the default slot chain with all rule kinds on one resource (growth item 1 of DESIGN section 4).

Not one of the twenty properties: it validates whole-API executions against the COMPOSITION of the module specs
(spec/SentinelOps.tla): flow -> isolation -> hot-parameter -> circuit breaker, first blocking slot wins and nothing after it
runs, only admitted requests shape any module's state.  It backs C16 (short-circuit in the real default chain), C02, C04,
C06 and C03 (their clauses in the presence of the other modules); `bin/check C16 thorough` runs it as an extra stage.

S1  TLC checks spec/Sentinel.tla: the single-module caps (IsoCap, HotCap, FlowCap), BreakerQuiet and BlockedInvisible hold
    in the composed model for all 16 combinations of present / absent rules.
S2  scenarios: one per transition of a smaller bounded instance, TLC simulations, seeded random histories.
S3  harness/cmd/c21 (api.Entry with batch counts and arguments, TraceError, Exit, virtual clock in 500 ms ticks).
S4  spec/Sentinel_Trace.tla judges every decision and block type.
"""
import json, os
from vlib import main, write_ndjson, read_ndjson, MachineryError

CFG = """SPECIFICATION Spec
CONSTANTS
  Rules <- %(rules)s
  Args = {"a", "b", "none"}
  Batches = {1, 2}
  Steps = {1, 2}
  MaxOps = %(maxops)d
  MaxT = %(maxt)d
VIEW view
%(props)s
CHECK_DEADLOCK FALSE
%(extra)s"""
PROPS = 'INVARIANTS IsoCap HotCap FlowCap\nPROPERTIES BreakerQuiet BlockedInvisible'


def cfg(rules='MCRules', maxops=4, maxt=6, props=PROPS, extra=''):
    return CFG % dict(rules=rules, maxops=maxops, maxt=maxt, props=props, extra=extra)


def maximal(hs):
    keys = sorted(json.dumps(x, sort_keys=True)[:-1] for x in hs)
    out = []
    for i, k in enumerate(keys):
        if i + 1 < len(keys) and keys[i + 1].startswith(k) and (keys[i + 1] == k or keys[i + 1][len(k)] == ','):
            continue
        out.append(json.loads(k + ']'))
    return out


def from_hist(hist, tr, t0=1):
    s = []
    for o in hist:
        o = dict(o)
        if o['op'] == 'new':
            o.update(tr=tr, t0=t0)
        s.append(o)
    return s


def random_scenario(rng, tr):
    R = dict(flow=rng.choice([-1, 0, 1, 2, 3, 5]), iso=rng.choice([-1, 1, 2, 3]), hot=rng.choice([-1, 0, 1, 2]),
             cbE=rng.choice([-1, 1, 1, 2, 3]), cbTO=rng.choice([1, 2, 3, 6]))
    s = [dict(op='new', tr=tr, rules=R, t0=rng.choice([1, 2, 7]))]
    live, nid = [], 0
    for _ in range(rng.randint(8, 40)):
        x = rng.random()
        if x < 0.5:
            nid += 1
            s.append(dict(op='enter', id=nid, b=rng.choice([1, 1, 1, 2, 3]), arg=rng.choice(['a', 'a', 'b', 'c', 'none'])))
            live.append(nid)
        elif x < 0.8 and live:
            i = rng.choice([0, -1, rng.randrange(len(live))])
            s.append(dict(op='exit', id=live.pop(i), err=rng.random() < 0.45))
        else:
            s.append(dict(op='tick', d=rng.choice([1, 1, 2, 3, R['cbTO'], R['cbTO'] + 1])))
    return s


def run_and_validate(c, drv, scns, tag):
    sp = os.path.join(c.scratch, tag + '.scn.ndjson')
    tp = os.path.join(c.scratch, tag + '.trace.ndjson')
    write_ndjson(sp, [o for s in scns for o in s])
    c.run([drv, sp, tp], timeout=900)
    lines = open(tp).read().splitlines()
    mism, consumed, r = c.validate('Sentinel_Trace', tp, len(lines))
    if consumed != len(lines):
        raise MachineryError('%s: trace validation consumed %d of %d lines\n%s' % (tag, consumed, len(lines), r.out[-1500:]))
    c.cov['traces_validated_against_impl'] += len(scns)
    c.cov['evaluations'] += len(lines)
    c.log('S3/S4 %s: %d scenarios, %d events validated in %.0fs, %d mismatching traces' % (tag, len(scns), len(lines), r.wall, len(mism)))
    return [(tr, ln, exp + '  OBSERVED: ' + lines[ln - 1][:300]) for tr, ln, exp in mism], tp


def handle(c, drv, scns, mism, tag):
    by = {s[0]['tr']: s for s in scns}
    for tr, line, exp in mism:
        if len(c.violations) >= 5:
            break
        s = by[tr]
        rp = c.save_replay('%s-tr%d.ndjson' % (tag, tr), s)
        ok = sum(1 for i in range(2) if run_and_validate(c, drv, [s], 'confirm%d' % i)[0])
        if ok < 2:
            c.inconclusive.append('mismatch of %s trace %d did not reproduce (%d/2)' % (tag, tr, ok))
            continue
        c.violation('decision / block type of the real default chain differs from the composition at line %d of trace %d: %s' % (line, tr, exp[:600]), rp)


def binding_selftest(c, tp):
    lines = [json.loads(l) for l in open(tp)]
    out, want, n, done = [], set(), 0, True
    for e in lines:
        if e['op'] == 'new':
            n += 1
            if n > 40:
                break
            done = False
        elif e['op'] == 'enter' and not done and c.rng.random() < 0.4:
            e = dict(e)
            if e['ok']:
                e['ok'], e['bt'] = False, 'flow'
            else:
                e['bt'] = 'breaker' if e['bt'] != 'breaker' else 'isolation'
            done = True
            want.add(n)
        out.append(e)
    cp = os.path.join(c.scratch, 'corrupt.ndjson')
    write_ndjson(cp, out)
    mism, consumed, r = c.validate('Sentinel_Trace', cp, len(out))
    trs, k = {}, 0
    for e in out:
        if e['op'] == 'new':
            k += 1
            trs[e['tr']] = k
    got = {trs[m[0]] for m in mism}
    if got != want:
        raise MachineryError('binding self-test failed: corrupted %s, rejected %s' % (sorted(want), sorted(got)))
    c.cov['binding_selftest'] = '%d corrupted traces, all rejected' % len(want)
    c.log('binding self-test: %d corrupted traces, all rejected' % len(want))


def check(c, tier, replay):
    drv = c.build('c21')
    if replay:
        s = read_ndjson(replay)
        mism, _ = run_and_validate(c, drv, [s], 'replay')
        if mism:
            c.violation('replayed scenario differs from the composition: %s' % mism[0][2][:500], replay)
        c.cov['states'] = c.cov['transitions'] = 1
        c.sample(s[:6])
        return
    thorough = tier == 'thorough'
    r = c.model_check('Sentinel_MC', cfg_text=cfg(maxops=4 if not thorough else 5, maxt=6), workers=8, timeout=3000, heap='14g')
    if not r.completed:
        c.inconclusive.append('Sentinel.tla: %s violated - the composed design model is wrong' % r.violated)
    c.cov['exhaustive'] = True
    scns, tr = [], 0
    r = c.tlc('Sentinel_MC', cfg_text=cfg(rules='MCRulesAll', maxops=3, maxt=5, props='', extra='ACTION_CONSTRAINT Emit\n'), workers=4, timeout=900, count=False)
    hs = maximal(r.json_prints())
    cap = 2500 if not thorough else 40000
    if len(hs) > cap:
        hs = c.rng.sample(hs, cap)
    for h in hs:
        tr += 1
        scns.append(from_hist(h, tr))
    ncover = len(scns)
    r = c.tlc('Sentinel_MC', cfg_text=cfg(rules='MCRules', maxops=12, maxt=14, props='', extra='ACTION_CONSTRAINT Emit\n'), workers=1, timeout=900, count=False,
              args=['-simulate', 'num=%d' % (200 if not thorough else 3000), '-depth', '26', '-seed', str(c.seed)])
    for h in maximal(r.json_prints()):
        tr += 1
        scns.append(from_hist(h, tr))
    nsim = len(scns) - ncover
    for _ in range(1200 if not thorough else 20000):
        tr += 1
        scns.append(random_scenario(c.rng, tr))
    c.log('S2: %d transition-cover scenarios, %d TLC simulations, %d seeded random histories' % (ncover, nsim, len(scns) - ncover - nsim))
    first = True
    for i in range(0, len(scns), 5000):
        part = scns[i:i + 5000]
        mism, tp = run_and_validate(c, drv, part, 'compose%d' % i)
        c.cov['conformance_mismatches'] += len(mism)
        handle(c, drv, part, mism, 'compose')
        if first and not c.violations:
            binding_selftest(c, tp)
            first = False
    c.cov['distinct_nontrivial'] = len({json.dumps(s[1:], sort_keys=True) + json.dumps(s[0]['rules'], sort_keys=True) for s in scns
                                        if sum(1 for k in ('flow', 'iso', 'hot', 'cbE') if s[0]['rules'][k] >= 0) >= 2})
    c.cov['rule'] = 'non-trivial = distinct scenario with at least two rule kinds loaded on the resource'
    c.sample(scns[0][:8])
    c.sample(scns[-1][:10])
    c.assumptions += ['one rule per module on the resource; breaker: error-count strategy, minimum amount 1, probe number 0, statistic bucket that does not '
                      'roll within a scenario; one tick = 500 ms (the bucket length of the default flow statistic)']


main('COMPOSE', check)
