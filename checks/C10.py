"""C10 - throttling flow rules pace admitted requests and bound queueing.

S1  TLC explores spec/Throttle.tla (PlusCal; labels = th.* yield hooks of flow.ThrottlingChecker.DoCheck) for all
    interleavings of 3-4 callers and the clock and checks Spacing, BoundedWait, NoSpuriousReject (operators of
    ThrottleProp).  Every request carries its own batch and its own THRESHOLD (an argument of each check: constant for
    Direct rules, moving for MemoryAdaptive / WarmUp rules); the spacing it owes is computed from that threshold.
    Two spec-level mutants must be refuted by TLC and their counterexamples are replayed on the real code:
    the pinned algorithm (CasLoop = FALSE: idle-branch CAS falling through to load / add / roll-back) and a checker
    that derives the per-token interval once, from its first request (PerCall = FALSE).
    The rule is REPLACED UNDER TRAFFIC (action `reload' of the loader process: statistic interval, queueing limit and
    threshold factor are state; a request is held to the parameters in force at its arrival; Spacing is owed within one
    epoch of the rule list - see ThrottleProp for what is accepted across a reload).  Spec-level mutants Stale = si /
    mq / tm (a reload that changes only that parameter keeps the old checker) must be refuted.
    SEVERAL THROTTLING RULES ON ONE RESOURCE (spec/ThrottleList.tla, sequential callers): the flow slot walks the rules in
    list order, the clock advances by each wait; the model records only the request-level observables (arrival, batch,
    decision, total wait, rule named by a rejection) and its invariants are the clauses PER RULE over the records that
    ThrottleProp!Attribute derives from them (the judgement Throttle_Trace applies to recorded executions); AttrExact:
    the attribution recovers what happened at every rule.  Spec-level mutants Mode = atarrival (every rule checked at
    the arrival instant, one sleep of the longest wait) and consultall (a rejection does not end the walk) must be refuted.
S2  gate scenarios: TLC random simulation, the mutants' counterexamples, seeded random schedules (constant and
    per-caller thresholds);
    sequential scenarios in virtual nanoseconds: seeded random Direct rules (fractional / zero thresholds, batches 0..3,
    several statistic intervals, queueing limits incl. 0) and MemoryAdaptive + Throttling rules whose effective threshold
    is moved between requests with system_metric.SetSystemMemoryUsage, both through api.Entry; and direct DoCheck
    calls on one checker with a different threshold argument from call to call.
    Reloads: schedules with reload steps from TLC (simulation of the reload configurations, counterexamples of the Stale
    mutants) and seeded random ones are forced on api.Entry (mode gapi: the rule is replaced while requests are parked
    inside the checker); sequential histories through api.Entry in which flow.LoadRules / LoadRulesOfResource replace
    the rule between requests, changing exactly one of Threshold / StatIntervalInMs / MaxQueueingTimeMs (or the
    MemoryAdaptive thresholds), or nothing.
    Lists of 2-3 rules through api.Entry under the advancing virtual clock (mode list): every history of the bounded
    ThrottleList configurations (a seeded sample of the leaves TLC enumerates), the mutants' counterexamples, seeded random
    lists, and the family "queue of a fast rule deeper than the interval of a slower rule behind it" (burst, pause,
    back-to-back requests).
S3  harness/cmd/c10 (gate on the th.* hooks / api.Entry with the virtual clock recording the requested Sleep / DoCheck).
S4  spec/Throttle_Trace.tla (TLC) judges the recorded request-level traces with the same operators; it derives the
    threshold of a MemoryAdaptive request from the published memory usage (ThrottleProp!MemThr) and the owed spacing
    from the request's own threshold (ThrottleProp!Iv).
"""
import json, os, random, re
from concurrent.futures import ThreadPoolExecutor
from fractions import Fraction
from math import ceil
from vlib import main, write_ndjson, read_ndjson, MachineryError

CFG = """SPECIFICATION Spec
CONSTANTS
  NC = %(nc)d
  Bt <- %(bt)s
  Th <- %(th)s
  SI = %(si)d
  MaxQ = %(maxq)d
  MaxT = %(maxt)d
  Last0 = %(last0)d
  CasLoop = %(casloop)s
  PerCall = %(percall)s
  Reloads <- %(reloads)s
  Stale = "%(stale)s"
VIEW view
INVARIANTS %(inv)s
CHECK_DEADLOCK FALSE
%(extra)s"""
ALLINV = 'SpacingInv BoundedWaitInv NoSpuriousInv'
# Python mirror of the per-caller constants of spec/Throttle_MC.tla (x = 1..NC)
FAM = {'MCBt2': lambda x: 2, 'MCBt123': lambda x: ((x - 1) % 3) + 1, 'MCTh4': lambda x: [4, 1],
       'MCBtV': lambda x: [1, 1, 2, 1][(x - 1) % 4], 'MCThV': lambda x: [[4, 1], [2, 1], [2, 1], [1, 1]][(x - 1) % 4],
       'MCBtW': lambda x: [1, 2, 1, 0][(x - 1) % 4], 'MCThW': lambda x: [[1, 1], [4, 1], [1, 2], [2, 1]][(x - 1) % 4]}
FAM.update({'MCBt1': lambda x: 1, 'MCBt112': lambda x: [1, 1, 2][(x - 1) % 3]})
# Python mirror of the reload families of spec/Throttle_MC.tla: (si, maxq) of the first rule -> [(si, maxq, tm_n, tm_d), ...]
RELOADS = {'MCRlSIup': lambda si, mq: [(2 * si, mq, 1, 1)], 'MCRlSIdown': lambda si, mq: [(si // 2, mq, 1, 1)],
           'MCRlMQ': lambda si, mq: [(si, 1, 1, 1)], 'MCRlTM': lambda si, mq: [(si, mq, 1, 2)],
           'MCRlSame': lambda si, mq: [(si, mq, 1, 1), (2 * si, mq, 1, 1)], 'MCRlBack': lambda si, mq: [(2 * si, mq, 1, 1), (si, mq, 1, 1)]}
RL_1 = dict(bt='MCBt1', th='MCTh4', si=4)        # reload configurations: every caller owes 1 tick under the first rule
RL_112 = dict(bt='MCBt112', th='MCTh4', si=8)    # batches 1, 1, 2 at 2 ticks per token (1 tick after the interval is halved)
OLD_A = dict(bt='MCBt2', th='MCTh4', si=4)      # constant threshold: every caller owes 2 ticks
OLD_B = dict(bt='MCBt123', th='MCTh4', si=4)    # constant threshold, batches 1, 2, 3
VAR_V = dict(bt='MCBtV', th='MCThV', si=4)      # thresholds 4, 2, 2, 1: spacings 1, 2, 4, 4
VAR_W = dict(bt='MCBtW', th='MCThW', si=4)      # thresholds 1, 4, 1/2 (batch over threshold), 2 (batch 0)


def cfg(nc=3, bt='MCBt2', th='MCTh4', si=4, maxq=3, maxt=6, last0=0, casloop=True, percall=True, inv=ALLINV, extra='',
        reloads='MCNoReload', stale='none'):
    return CFG % dict(nc=nc, bt=bt, th=th, si=si, maxq=maxq, maxt=maxt, last0=last0, casloop='TRUE' if casloop else 'FALSE',
                      percall='TRUE' if percall else 'FALSE', inv=inv, extra=extra, reloads=reloads, stale=stale)


def gate_scn(tr, sched, nc=3, bt='MCBt2', th='MCTh4', si=4, maxq=3, last0=0, btl=None, thl=None, **_):
    return dict(tr=tr, mode='gate', maxq=maxq, last0=last0, si=si,
                bt=btl if btl is not None else [FAM[bt](x) for x in range(1, nc + 1)],
                th=thl if thl is not None else [FAM[th](x) for x in range(1, nc + 1)], sched=sched)


def gapi_scn(tr, sched, nc=3, bt='MCBt2', th='MCTh4', si=4, maxq=3, last0=0, reloads='MCNoReload', rng=None, **_):
    """a schedule of the reload configurations of Throttle (entries -1 = reload) forced on api.Entry"""
    assert th == 'MCTh4' and last0 == 0
    return dict(tr=tr, mode='gapi', si=si, maxq=maxq, th=[4, 1], bt=[FAM[bt](x) for x in range(1, nc + 1)],
                reloads=[dict(si=a, maxq=b, th=[4 * n, d], via=(rng.choice(['all', 'res']) if rng else 'res')) for a, b, n, d in RELOADS[reloads](si, maxq)],
                sched=sched)


def last_sched(out):
    m = re.findall(r'/\\ sched = <<([^>]*)>>', out)
    return [int(x) for x in re.findall(r'-?\d+', m[-1])] if m else None


def maximal(hs):
    keys = sorted(json.dumps(x)[:-1] for x in hs)
    out = []
    for i, k in enumerate(keys):
        if i + 1 < len(keys) and keys[i + 1].startswith(k) and (keys[i + 1] == k or keys[i + 1][len(k)] == ','):
            continue
        out.append(json.loads(k + ']'))
    return out


def seq_scn(tr, rng):
    thr = rng.choice([Fraction(1, 2), Fraction(1), Fraction(2), Fraction(5, 2), Fraction(3), Fraction(4), Fraction(10), Fraction(0), Fraction(100)])
    interval_ms = rng.choice([1, 2, 5, 10, 10, 50, 100, 1000])
    maxq_ms = rng.choice([0, 0, 1, 2, 5, 20, 100, 500])
    reqs, t = [], 0
    budget = 1_900_000_000
    for _ in range(rng.randint(3, 14)):
        b = rng.choice([0, 1, 1, 1, 2, 3])
        big = thr <= 0 or b > thr
        iv = 0 if (b == 0 or thr <= 0) else ceil(Fraction(b * interval_ms * 1_000_000) / thr)
        base_iv = ceil(Fraction(interval_ms * 1_000_000) / thr) if thr > 0 else interval_ms * 1_000_000
        gap = rng.choice([0, 0, 1, base_iv - 1, base_iv, base_iv + 1, base_iv // 2, 2 * base_iv, rng.randint(0, 2 * base_iv), maxq_ms * 1_000_000])
        if t + gap + maxq_ms * 1_000_000 + 2 * base_iv > budget or iv > 1_000_000_000:
            break
        t += gap + maxq_ms * 1_000_000      # worst case: the request waits the full limit
        reqs.append(dict(gap=gap, batch=b, iv=iv, big=big))
    if not reqs:
        reqs = [dict(gap=0, batch=1, iv=ceil(Fraction(interval_ms * 1_000_000) / thr) if thr > 0 else 0, big=thr <= 0 or 1 > thr)]
    return dict(tr=tr, mode='seq', thr_num=thr.numerator, thr_den=thr.denominator, interval_ms=interval_ms, maxq_ms=maxq_ms, reqs=reqs)


NS = 1_000_000
BUDGET = 1_900_000_000      # relative virtual times (and time + owed spacing) stay below 2^31 ns


def owed(b, thr, interval_ms):
    return 0 if (b == 0 or thr <= 0) else ceil(Fraction(b * interval_ms * NS) / thr)


def gaps(rng, base_iv, maxq_ms):
    return rng.choice([0, 0, 1, base_iv - 1, base_iv, base_iv + 1, base_iv // 2, 2 * base_iv, rng.randint(0, 2 * base_iv), maxq_ms * NS])


def mem_thr(low, high, lwm, hwm, mem):
    """threshold of a MemoryAdaptive rule (mirror of ThrottleProp!MemThr; only used to size gaps / the time budget)"""
    if mem <= lwm:
        return Fraction(low)
    if mem >= hwm:
        return Fraction(high)
    return Fraction(low * (hwm - lwm) + (high - low) * (mem - lwm), hwm - lwm)


def mem_scn(tr, rng):
    """MemoryAdaptive + Throttling rule through api.Entry; the memory usage (hence the threshold) moves between requests"""
    low = rng.choice([100, 100, 50, 20, 10, 4])
    high = rng.choice([h for h in (1, 2, 5, 10, 25, 40) if h < low])
    lwm = rng.choice([4, 1024, 1 << 20])
    width = rng.choice([4, 8])
    hwm = lwm + width
    interval_ms = rng.choice([1, 10, 10, 100, 100, 1000])
    maxq_ms = rng.choice([0, 1, 2, 5, 20, 50, 100, 500])
    levels = [0, lwm, hwm, hwm + 7] + [lwm + k for k in range(1, width)]
    mem = rng.choice([0, hwm + 7, rng.choice(levels)])
    reqs, t = [], 0
    for _ in range(rng.randint(4, 14)):
        if rng.random() < 0.4:
            mem = rng.choice([0, hwm + 7, rng.choice(levels)])
        thr = mem_thr(low, high, lwm, hwm, mem)
        b = rng.choice([0, 1, 1, 1, 1, 2, 3])
        iv, base_iv = owed(b, thr, interval_ms), owed(1, thr, interval_ms)
        gap = gaps(rng, base_iv, maxq_ms)
        if t + gap + maxq_ms * NS + max(iv, 3 * base_iv) + 2 > BUDGET or iv > 1_000_000_000:
            break
        t += gap + maxq_ms * NS
        reqs.append(dict(gap=gap, batch=b, mem=mem))
    if not reqs:
        reqs = [dict(gap=0, batch=1, mem=0)]
    return dict(tr=tr, mode='seq', strategy='mem', low=low, high=high, lwm=lwm, hwm=hwm, interval_ms=interval_ms, maxq_ms=maxq_ms, reqs=reqs)


def chk_scn(tr, rng):
    """sequential DoCheck calls on one checker, each with its own threshold argument"""
    pool = rng.choice([[Fraction(100), Fraction(10), Fraction(4), Fraction(1)],
                       [Fraction(1, 2), Fraction(1), Fraction(2), Fraction(5, 2), Fraction(3), Fraction(4)],
                       [Fraction(10), Fraction(25), Fraction(7, 2), Fraction(0), Fraction(1000)],
                       [Fraction(2), Fraction(4)], [Fraction(100), Fraction(10)]])
    interval_ms = rng.choice([1, 2, 5, 10, 10, 50, 100, 1000])
    maxq_ms = rng.choice([0, 0, 1, 2, 5, 20, 100, 500])
    sleep = rng.random() < 0.5
    thr = rng.choice(pool)
    reqs, t = [], 0
    for _ in range(rng.randint(3, 14)):
        if rng.random() < 0.5:
            thr = rng.choice(pool)
        b = rng.choice([0, 1, 1, 1, 2, 3])
        iv = owed(b, thr, interval_ms)
        base_iv = owed(1, thr, interval_ms) if thr > 0 else interval_ms * NS
        gap = gaps(rng, base_iv, maxq_ms)
        if t + gap + maxq_ms * NS + max(iv, 3 * base_iv) + 2 > BUDGET or iv > 1_000_000_000:
            break
        t += gap + (maxq_ms * NS if sleep else 0)
        reqs.append(dict(gap=gap, batch=b, tn=thr.numerator, td=thr.denominator))
    if not reqs:
        reqs = [dict(gap=0, batch=1, tn=1, td=1)]
    return dict(tr=tr, mode='chk', interval_ms=interval_ms, maxq_ms=maxq_ms, sleep=sleep, reqs=reqs)


def var_gate_scn(tr, rng):
    """random schedule, every caller with its own threshold; si / threshold is a whole number of ticks for every
    threshold of the scenario, so that every wait is a whole number of ticks"""
    si = rng.choice([4, 4, 8])
    pool = [[si, 1], [si, 1], [si // 2, 1], [si // 2, 1], [si // 4, 1], [1, 1] if si == 8 else [1, 2]]
    nc = rng.choice([2, 3, 3, 4, 5])
    thl = [rng.choice(pool) for _ in range(nc)]
    btl = [rng.choice([0, 1, 1, 1, 2, 2, 3]) for _ in range(nc)]
    sched = [rng.choice([0, 0] + list(range(1, nc + 1)) * 3) for _ in range(rng.randint(8, 45))]
    return gate_scn(tr, sched, si=si, maxq=rng.choice([0, 1, 2, 3, 5, 8]), last0=rng.choice([0, 0, 1, 2, 3]), btl=btl, thl=thl)


def rnd_gapi_scn(tr, rng):
    """random schedule with rule reloads on api.Entry: every reload changes exactly one of statistic interval, queueing
    limit, threshold - or nothing; thresholds divide every statistic interval of the scenario (whole ticks)"""
    nc = rng.choice([2, 3, 3, 4, 5])
    rule = dict(si=rng.choice([4, 8]), maxq=rng.choice([0, 1, 2, 3, 5, 8]), th=[rng.choice([1, 2, 4, 4]), 1])
    cur, reloads = rule, []
    for _ in range(rng.choice([1, 1, 2, 3])):
        kind = rng.choice(['si', 'si', 'si', 'th', 'maxq', 'none'])
        nxt = dict(cur)
        if kind == 'si':
            nxt['si'] = rng.choice([x for x in (4, 8, 16) if x != cur['si']])
        elif kind == 'th':
            nxt['th'] = [rng.choice([x for x in (1, 2, 4) if x != cur['th'][0]]), 1]
        elif kind == 'maxq':
            nxt['maxq'] = rng.choice([x for x in (0, 1, 2, 3, 5, 8, 12) if x != cur['maxq']])
        reloads.append(dict(nxt, via=rng.choice(['all', 'res']), kind=kind))
        cur = nxt
    sched = [rng.choice([0, 0] + list(range(1, nc + 1)) * 3) for _ in range(rng.randint(8, 45))]
    for _ in reloads:
        sched.insert(rng.randint(0, len(sched)), -1)
    return dict(tr=tr, mode='gapi', bt=[rng.choice([0, 1, 1, 1, 2, 2, 3]) for _ in range(nc)], reloads=reloads, sched=sched, **rule)


THR_POOL = [Fraction(1, 2), Fraction(1), Fraction(2), Fraction(5, 2), Fraction(3), Fraction(4), Fraction(10), Fraction(100)]
IV_POOL = [1, 2, 5, 10, 20, 50, 100, 200]


def rl_scn(tr, rng, mem=False):
    """sequential history through api.Entry in which the throttling rule is replaced between requests (flow.LoadRules /
    LoadRulesOfResource); every reload changes exactly one of Threshold (MemoryAdaptive: the low / high memory
    threshold), StatIntervalInMs, MaxQueueingTimeMs - or nothing.  Gaps are drawn relative to the spacing of the rule in
    force AND of the rule before it, the queueing limit from values around those spacings."""
    def thr_of(r, memv):
        return mem_thr(r['low'], r['high'], r['lwm'], r['hwm'], memv) if mem else Fraction(r['thr_num'], r['thr_den'])

    def base_of(r, memv):
        th = thr_of(r, memv)
        return owed(1, th, r['interval_ms']) if th > 0 else r['interval_ms'] * NS

    def maxq_choice(r, memv):
        ms = max(1, ceil(Fraction(base_of(r, memv), NS)))
        return rng.choice([0, 1, 2, 5, 20, 100, ms - 1, ms, ms, 2 * ms, 3 * ms, 5 * ms])

    interval_ms = rng.choice(IV_POOL)
    if mem:
        low = rng.choice([100, 100, 50, 20, 10, 4])
        lwm, width = rng.choice([4, 1024, 1 << 20]), rng.choice([4, 8])
        rule = dict(low=low, high=rng.choice([h for h in (1, 2, 5, 10, 25, 40) if h < low]), lwm=lwm, hwm=lwm + width, interval_ms=interval_ms)
        levels = [0, lwm, lwm + width, lwm + width + 7] + [lwm + k for k in range(1, width)]
        memv = rng.choice(levels)
    else:
        th = rng.choice(THR_POOL + [Fraction(0)] if rng.random() < 0.05 else THR_POOL)
        rule = dict(thr_num=th.numerator, thr_den=th.denominator, interval_ms=interval_ms)
        levels, memv = [0], 0
    rule['maxq_ms'] = min(500, maxq_choice(rule, memv))
    first, prev, reqs, t, maxq_all, kinds = dict(rule), None, [], 0, rule['maxq_ms'], []
    for ph in range(rng.randint(2, 4)):
        if ph > 0:
            kind = rng.choice(['si', 'si', 'si', 'thr', 'maxq', 'none'])
            nxt = dict(rule)
            if kind == 'si':
                nxt['interval_ms'] = rng.choice([x for x in IV_POOL if x != rule['interval_ms']])
            elif kind == 'maxq':
                nxt['maxq_ms'] = rng.choice([x for x in (0, 1, 2, 5, 20, 100, 500, min(500, maxq_choice(rule, memv))) if x != rule['maxq_ms']] or [7])
            elif kind == 'thr' and mem:
                if rng.random() < 0.5:
                    nxt['low'] = rng.choice([x for x in (200, 100, 50, 20, 10, 4) if x > rule['high'] and x != rule['low']])
                else:
                    nxt['high'] = rng.choice([x for x in (1, 2, 3, 5, 10, 25, 40) if x < rule['low'] and x != rule['high']])
            elif kind == 'thr':
                nt = rng.choice([x for x in THR_POOL if x != Fraction(rule['thr_num'], rule['thr_den'])])
                nxt['thr_num'], nxt['thr_den'] = nt.numerator, nt.denominator
            gap = rng.choice([0, 0, 1, base_of(rule, memv) // 2, base_of(rule, memv), rule['maxq_ms'] * NS])
            if t + gap > BUDGET // 2:
                break
            t += gap
            reqs.append(dict(nxt, op='reload', gap=gap, via=rng.choice(['all', 'res']), kind=kind))
            kinds.append(kind)
            prev, rule = rule, nxt
            maxq_all = max(maxq_all, rule['maxq_ms'])
        for _ in range(rng.randint(1 if ph == 0 else 2, 5)):
            if mem and rng.random() < 0.3:
                memv = rng.choice(levels)
            b = rng.choice([0, 1, 1, 1, 1, 2, 3])
            th = thr_of(rule, memv)
            iv, base_iv = owed(b, th, rule['interval_ms']), base_of(rule, memv)
            ref = base_of(prev, memv) if prev is not None and rng.random() < 0.3 else base_iv
            gap = gaps(rng, ref, rule['maxq_ms'])
            # worst case: the request waits the largest limit loaded so far, and the spacing of any rule so far is added
            if t + gap + maxq_all * NS + max(iv, 3 * base_iv, 3 * ref) + 2 > BUDGET or iv > 1_000_000_000:
                break
            t += gap + maxq_all * NS
            q = dict(gap=gap, batch=b)
            if mem:
                q['mem'] = memv
            reqs.append(q)
    if not any(q.get('op') != 'reload' for q in reqs):
        reqs.append(dict(gap=0, batch=1, **({'mem': 0} if mem else {})))
    out = dict(first, tr=tr, mode='seq', rl=kinds, reqs=reqs)
    if mem:
        out['strategy'] = 'mem'
    return out



# ---- several throttling rules on one resource (spec/ThrottleList.tla) ------------------------------------------------
LCFG = """SPECIFICATION Spec
CONSTANTS
  Rules <- %(rules)s
  Bts <- %(bts)s
  Gaps <- %(gaps)s
  NReq = %(nreq)d
  Mode = "%(mode)s"
INVARIANTS %(inv)s
CHECK_DEADLOCK FALSE
%(extra)s"""
LALLINV = 'SpacingInv BoundedWaitInv NoSpuriousInv RejectInv AttrExact'
# Python mirror of the rule lists of spec/ThrottleList_MC.tla: (si, mq, tn, td) in ticks (the driver runs a tick as 1 ms)
LRULES = {'MCRulesA': [(4, 4, 2, 1), (6, 0, 2, 1)], 'MCRulesB': [(4, 2, 4, 1), (4, 2, 2, 1)],
          'MCRulesC': [(4, 3, 4, 1), (6, 0, 2, 1), (4, 1, 2, 1)], 'MCRulesD': [(4, 3, 4, 1), (3, 2, 1, 1), (4, 2, 0, 1)],
          'MCRulesE': [(6, 1, 2, 1), (4, 4, 2, 1)]}
L_A = dict(rules='MCRulesA', bts='MCB1', gaps='MCG03')
L_B = dict(rules='MCRulesB', bts='MCB12', gaps='MCG012')
L_C = dict(rules='MCRulesC', bts='MCB1', gaps='MCG013')
L_D = dict(rules='MCRulesD', bts='MCB012', gaps='MCG012')
L_E = dict(rules='MCRulesE', bts='MCB1', gaps='MCG0124')


def lcfg(rules, bts, gaps, nreq, mode='seq', inv=LALLINV, extra=''):
    return LCFG % dict(rules=rules, bts=bts, gaps=gaps, nreq=nreq, mode=mode, inv=inv, extra=extra)


def last_hist(out):
    """the input history h = <<[gap, batch], ...>> of the last state of a TLC counterexample"""
    m = re.findall(r'/\\ h = (.*?)(?=\n/\\|\n\n|\Z)', out, re.S)
    return [(int(a), int(b)) for a, b in re.findall(r'gap \|-> (\d+), batch \|-> (\d+)', m[-1])] if m else None


def tick_list_scn(tr, rules, hist, via='res', src='tlc'):
    """a history of ThrottleList (ticks) for the driver: one tick = 1 ms"""
    return dict(tr=tr, mode='list', via=via, src=src,
                rules=[dict(thr_num=n, thr_den=d, interval_ms=si, maxq_ms=mq) for si, mq, n, d in LRULES[rules]],
                reqs=[dict(gap=g * NS, batch=b) for g, b in hist])


LTHR_POOL = [Fraction(1, 2), Fraction(1), Fraction(2), Fraction(5, 2), Fraction(4), Fraction(5), Fraction(10), Fraction(20), Fraction(100)]


def rnd_list_scn(tr, rng):
    """2-3 Direct + Throttling rules on one resource, sequential requests through api.Entry: gaps around the spacing and
    the queueing limit of a rule of the list"""
    n = rng.choice([2, 2, 2, 3])
    rules, bases = [], []
    while len(rules) < n:
        thr, interval_ms = rng.choice(LTHR_POOL), rng.choice([1, 2, 5, 10, 20, 50, 100, 200, 1000])
        base = owed(1, thr, interval_ms)
        if base > 200 * NS:
            continue
        rules.append(dict(thr_num=thr.numerator, thr_den=thr.denominator, interval_ms=interval_ms))
        bases.append(base)
    for r in rules:
        ms = max(1, ceil(Fraction(rng.choice(bases), NS)))
        r['maxq_ms'] = min(250, rng.choice([0, 0, 1, ms - 1, ms, ms, 2 * ms, 3 * ms, 5 * ms, 20, 100]))
    worst = sum(r['maxq_ms'] for r in rules) * NS
    reqs, t = [], 0
    for _ in range(rng.randint(5, 16)):
        b = rng.choice([1, 1, 1, 1, 1, 2, 0, 3])
        j = rng.randrange(n)
        gap = rng.choice([0, 0, 0, gaps(rng, bases[j], rules[j]['maxq_ms']), max(bases) + rng.choice([0, 1, min(bases)])])
        if t + gap + worst + 3 * max(bases) + 2 > BUDGET:
            break
        t += gap + worst
        reqs.append(dict(gap=gap, batch=b))
    if not reqs:
        reqs = [dict(gap=0, batch=1)]
    return dict(tr=tr, mode='list', via=rng.choice(['all', 'res']), src='random', rules=rules, reqs=reqs)


def shape_list_scn(tr, rng):
    """a fast rule that queues in front of a slower rule with a short (or no) queue, the fast rule's limit at least the
    slow rule's interval; a burst of back-to-back requests, a pause of about the slow interval, back-to-back requests
    again, stragglers.  (30 %: a third rule somewhere in the list; 15 %: the two rules the other way round.)"""
    while True:
        iv_a = rng.choice([1, 2, 5, 10])                                       # ms per token of the fast rule
        k = rng.choice([2, 3, 5])
        iv_b = k * iv_a + rng.choice([0, 0, 1])
        mq_a = rng.choice([iv_b, iv_b + iv_a, 2 * iv_b, 3 * iv_b])
        mq_b = rng.choice([0, 0, 0, 1, iv_a])

        def rule(iv_ms, mq):
            interval_ms = rng.choice([x for x in (100, 200, 1000) if x % iv_ms == 0] or [iv_ms])
            return dict(thr_num=interval_ms // iv_ms, thr_den=1, interval_ms=interval_ms, maxq_ms=mq)
        rules = [rule(iv_a, mq_a), rule(iv_b, mq_b)]
        if rng.random() < 0.15:
            rules.reverse()
        if rng.random() < 0.3:
            iv_c = rng.choice([1, iv_a, 2 * iv_a])
            rules.insert(rng.randint(0, 2), rule(iv_c, rng.choice([0, iv_c, iv_b, 2 * iv_b])))
        worst = sum(r['maxq_ms'] for r in rules) * NS
        reqs = [dict(gap=0, batch=1) for _ in range(mq_a // iv_a + rng.randint(0, 3))]
        reqs.append(dict(gap=(iv_b + rng.choice([0, 0, 1, iv_a, iv_b // 2])) * NS, batch=1))
        reqs += [dict(gap=0, batch=1) for _ in range(rng.randint(1, 3))]
        for _ in range(rng.randint(0, 5)):
            reqs.append(dict(gap=rng.choice([0, 1, iv_a * NS - 1, iv_a * NS, iv_b * NS, rng.randint(0, 2 * iv_b * NS)]), batch=rng.choice([1, 1, 1, 2])))
        if sum(q['gap'] + worst for q in reqs) + 3 * iv_b * NS < BUDGET:
            return dict(tr=tr, mode='list', via=rng.choice(['all', 'res']), src='shape', rules=rules, reqs=reqs)


class _Lane:
    """a private scratch directory for one Check.tlc call: lets several small TLC runs (spec-level mutants, simulations)
    go side by side without sharing the run counter / directories of the check object"""
    def __init__(self, c, tag):
        self.scratch = os.path.join(c.scratch, 'lane-' + tag)
        os.makedirs(self.scratch)
        self._tlc_n = 0
        self.cov = c.cov


def par_tlc(c, tag, jobs, width=4):
    """run the TLC jobs (kwargs of c.tlc, all with count=False) at most `width' at a time; results in the order of the jobs"""
    lanes = [_Lane(c, '%s%d' % (tag, i)) for i in range(len(jobs))]
    with ThreadPoolExecutor(width) as ex:
        return list(ex.map(lambda lj: type(c).tlc(lj[0], **lj[1]), zip(lanes, jobs)))


def run_and_validate(c, drv, scns, tag):
    sp = os.path.join(c.scratch, tag + '.scn.ndjson')
    tp = os.path.join(c.scratch, tag + '.trace.ndjson')
    write_ndjson(sp, scns)
    c.run([drv, sp, tp], timeout=1200)
    nlines = 0
    for ln in open(tp):
        nlines += 1
        if '"retl"' in ln and not tag.startswith(('confirm', 'replay')):     # several rules on one resource: what the executions exercised
            e = json.loads(ln)
            lc = c.cov.setdefault('several_rules_requests', dict(admitted_after_waiting=0, rejected_by_a_rule_behind_the_first=0,
                                                                 rejected_after_waiting_at_a_rule_in_front=0, rejection_naming_no_rule=0))
            lc['admitted_after_waiting'] += e['res'] == 'pass' and e['w'] > 0
            lc['rejected_by_a_rule_behind_the_first'] += e['res'] == 'reject' and e['by'] >= 2
            lc['rejected_after_waiting_at_a_rule_in_front'] += e['res'] == 'reject' and e['w'] > 0
            lc['rejection_naming_no_rule'] += e['res'] == 'reject' and e['by'] == 0
    mism, consumed, r = c.validate('Throttle_Trace', tp, nlines)
    if consumed != nlines:
        raise MachineryError('%s: trace validation consumed %d of %d lines\n%s' % (tag, consumed, nlines, r.out[-1500:]))
    c.cov['traces_validated_against_impl'] += len(scns)
    c.cov['evaluations'] += nlines
    c.log('S3/S4 %s: %d executions of the real checker, %d events validated in %.0fs, %d rejected' % (tag, len(scns), nlines, r.wall, len(mism)))
    return mism, tp


def classify(exp):
    return None


def describe(s):
    if s['mode'] == 'gate':
        if 'bt' in s:
            return 'forced schedule %s (batches=%s thresholds=%s si=%s maxq=%s last0=%s)' % (s['sched'], s['bt'], s['th'], s['si'], s['maxq'], s['last0'])
        return 'forced schedule %s (iv=%s maxq=%s)' % (s['sched'], s['iv'], s['maxq'])
    if s['mode'] == 'gapi':
        return ('forced schedule %s on api.Entry (-1 = the rule is replaced), Direct+Throttling rule threshold=%s si=%sms maxq=%sms, batches=%s, reloads=%s'
                % (s['sched'], s['th'], s['si'], s['maxq'], s['bt'], s['reloads']))
    if s['mode'] == 'list':
        return ('sequential history through api.Entry on a resource with %d Direct+Throttling rules (in list order: %s), requests %s'
                % (len(s['rules']), ['%s/%s per %sms maxq=%sms' % (r['thr_num'], r['thr_den'], r['interval_ms'], r['maxq_ms']) for r in s['rules']], s['reqs']))
    if s['mode'] == 'chk':
        return 'sequential DoCheck calls with per-call thresholds interval=%sms maxq=%sms sleep=%s %s' % (s['interval_ms'], s['maxq_ms'], s.get('sleep'), s['reqs'])
    rl = ' with rule reloads (changing %s)' % s['rl'] if s.get('rl') else ''
    if s.get('strategy') == 'mem':
        return ('sequential history through api.Entry%s, MemoryAdaptive+Throttling rule low=%s high=%s water marks %s..%s interval=%sms maxq=%sms %s'
                % (rl, s['low'], s['high'], s['lwm'], s['hwm'], s['interval_ms'], s['maxq_ms'], s['reqs']))
    return 'sequential history through api.Entry%s thr=%s/%s interval=%sms maxq=%sms %s' % (rl, s['thr_num'], s['thr_den'], s['interval_ms'], s['maxq_ms'], s['reqs'])


def handle(c, drv, scns, mism, tag):
    by = {s['tr']: s for s in scns}
    for tr, line, exp in mism:
        if len(c.violations) >= 5:
            break
        s = by[tr]
        rp = c.save_replay('%s-tr%d.ndjson' % (tag, tr), [s])
        ok = 0
        for i in range(2):
            m2, _ = run_and_validate(c, drv, [s], 'confirm%d' % i)
            ok += 1 if m2 else 0
        if ok < 2:
            c.inconclusive.append('rejection of %s scenario %d did not reproduce (%d/2)' % (tag, tr, ok))
            continue
        key = classify(exp)
        if key and c.is_known(key):
            c.known(key, c.kf[key]['description'])
        else:
            what = describe(s)
            c.violation('real throttling checker violates C10 under %s: %s' % (what, exp[:500]), rp)


def binding_selftest(c, tp):
    """shorten the wait of an admitted, waiting request to 0 (it then shares the slot of its predecessor), make a
    request wait beyond the limit, or quarter the recorded threshold of a waiting request (it then owes four times the
    spacing it was given): every corrupted trace must be rejected"""
    lines = [json.loads(l) for l in open(tp)]
    traces, cur = [], None
    for e in lines:
        if e['op'] in ('new', 'newl'):
            cur = []
            traces.append(cur)
        cur.append(e)
    out, want, kinds, used = [], 0, [0, 0, 0], set()
    for t in traces:
        if min(kinds) >= 10:
            break
        waits = [e for e in t if e['op'] == 'ret' and e['res'] == 'pass' and e['w'] > 0]
        if not waits or any(e['op'] == 'reload' for e in t):
            continue
        t = [dict(e) for e in t]
        maxq = t[0]['maxq']
        e = [x for x in t if x['op'] == 'ret' and x['res'] == 'pass' and x['w'] > 0][0]      # the first request that waited
        iv = [x for x in t if x['op'] == 'inv' and x['p'] == e['p']][-1]
        # which corruptions are GUARANTEED to break the property on this trace: waiting beyond the limit always does; a
        # quartered threshold always does (the request waited exactly one spacing behind the reservation before it);
        # a wait of 0 does when every request arrives at or after the pass time of the one before it, i.e. in the sequential
        # api.Entry histories (among concurrent callers - or callers that do not honour their wait - a request that arrived
        # early enough may legally pass BEFORE the request it queued behind)
        sequential = 'tn' not in iv and not any(x['op'] == 'step' for x in t)
        ok = [k for k in ((0,) if sequential else ()) + (1,) + ((2,) if 'tn' in iv else ()) if kinds[k] < 10]
        if not ok:
            continue
        k = min(ok, key=lambda x: kinds[x])
        if k == 2:
            iv['td'] *= 4
        else:
            e['w'] = maxq + 1 if k == 1 else 0
        kinds[k] += 1
        used.add(t[0]['tr'])
        out += t
        want += 1
    if min(kinds) == 0:
        raise MachineryError('binding self-test: not every kind of corruption could be applied: %s' % kinds)
    # the rule in force is state of the trace spec: quadruple the statistic interval a RELOAD event announces when, in
    # the epoch it starts, a request waited behind another admitted request of that epoch (it then owes 4x the spacing)
    nrl = 0
    for t in traces:
        if nrl >= 10:
            break
        if t[0]['tr'] in used:
            continue
        t = [dict(e) for e in t]
        hit, inflight = None, set()
        for i, e in enumerate(t):
            if e['op'] == 'inv':
                inflight.add(e['p'])
            elif e['op'] == 'ret':
                inflight.discard(e['p'])
            # (a request in flight across the reload may reserve a slot between two requests of the new epoch: their distance
            # is then more than one spacing and the corrupted trace could be a legal one)
            if e['op'] != 'reload' or inflight:
                continue
            paced, invs = 0, {}
            for x in t[i + 1:]:
                if x['op'] == 'reload':
                    break
                if x['op'] == 'inv':
                    invs[x['p']] = x
                if x['op'] == 'ret' and x['res'] == 'pass' and x['p'] in invs and invs[x['p']]['b'] > 0:
                    if paced and x['w'] > 0:
                        hit = e
                        break
                    paced += 1
            if hit:
                break
        if hit and hit['si'] * 4 < 2 ** 31:
            hit['si'] *= 4
            out += t
            nrl += 1
    if nrl == 0:
        raise MachineryError('binding self-test: no reload trace with a request that waited behind another one of its epoch')
    want += nrl
    # several rules on one resource (sequential callers).  Guaranteed breaches: (0) the total wait of an admitted request that
    # waited is zeroed - it passes the rule it queued at too early; (1) the total wait exceeds the sum of all queueing limits -
    # some rule made it wait beyond its limit; (2) a request that a rule with a positive threshold rejected for queueing too
    # long is recorded as admitted with the same total wait - it passes that rule earlier than the spacing it could not wait for
    lk = [0, 0, 0]
    for t in traces:
        if min(lk) >= 10:
            break
        if t[0]['op'] != 'newl' or any(e['op'] == 'invl' and e['arr'] > 10 ** 9 for e in t):
            continue
        t = [dict(e) for e in t]
        rules = t[0]['list']
        waited = [e for e in t if e['op'] == 'retl' and e['res'] == 'pass' and e['w'] > 0]
        named = [e for e in t if e['op'] == 'retl' and e['res'] == 'reject' and e['by'] > 0 and rules[e['by'] - 1]['tn'] > 0]
        ok = [k for k in ((0, 1) if waited else ()) + ((2,) if named else ()) if lk[k] < 10]
        if not ok:
            continue
        k = min(ok, key=lambda x: lk[x])
        if k == 0:
            waited[0]['w'] = 0
        elif k == 1:
            waited[0]['w'] = sum(r['maxq'] for r in rules) + 10
        else:
            named[0]['res'], named[0]['by'] = 'pass', 0
        lk[k] += 1
        out += t
        want += 1
    if min(lk) == 0:
        raise MachineryError('binding self-test: not every kind of corruption could be applied to the traces with several rules: %s' % lk)
    cp = os.path.join(c.scratch, 'corrupt.ndjson')
    write_ndjson(cp, out)
    mism, consumed, r = c.validate('Throttle_Trace', cp, len(out))
    if len({m[0] for m in mism}) != want:
        missed = sorted({e['tr'] for e in out if e['op'] in ('new', 'newl')} - {m[0] for m in mism})
        raise MachineryError('binding self-test failed: %d corrupted traces, %d rejected; accepted: traces %s' % (want, len(mism), missed[:5]))
    c.cov['binding_selftest'] = ('%d corrupted traces (%d wait zeroed / %d wait beyond the limit / %d threshold of the request quartered / '
                                 '%d statistic interval announced by a reload quadrupled / several rules: %d total wait zeroed, %d total wait beyond '
                                 'the sum of the limits, %d rejection recorded as admission), all rejected' % (want, kinds[0], kinds[1], kinds[2], nrl, lk[0], lk[1], lk[2]))
    c.log('binding self-test: %d corrupted traces, all rejected' % want)


def check(c, tier, replay):
    drv = c.build('c10')
    if replay:
        s = read_ndjson(replay)
        mism, _ = run_and_validate(c, drv, s, 'replay')
        if mism:
            c.violation('replayed scenario violates C10: %s' % mism[0][2][:500], replay)
        c.cov['states'] = c.cov['transitions'] = 1
        c.sample(s[0])
        return
    thorough = tier == 'thorough'
    # S1 ---------------------------------------------------------------------------------------
    base = [dict(nc=3, maxq=3, maxt=6, last0=0, **OLD_A), dict(nc=3, maxq=2, maxt=5, last0=2, **OLD_B),
            dict(nc=3, maxq=0, maxt=5, last0=0, **OLD_B)]
    # the threshold differs from caller to caller
    var = [dict(nc=3, maxq=3, maxt=6, last0=0, **VAR_V), dict(nc=4, maxq=2, maxt=5, last0=2, **VAR_W)]
    # the rule is replaced under traffic: one reload changing exactly one parameter (or none, then one)
    rl = [dict(nc=3, maxq=3, maxt=3, reloads='MCRlSIup', **RL_1), dict(nc=3, maxq=1, maxt=3, reloads='MCRlSIdown', **RL_112),
          dict(nc=2, maxq=3, maxt=6, reloads='MCRlSame', **OLD_B), dict(nc=2, maxq=3, maxt=6, reloads='MCRlMQ', **OLD_A),
          dict(nc=2, maxq=4, maxt=6, reloads='MCRlTM', **OLD_B)]
    configs = base + var + (rl if thorough else rl[:4])
    if thorough:
        configs += [dict(nc=3, maxq=3, maxt=6, reloads='MCRlSIup', **OLD_B), dict(nc=3, maxq=2, maxt=4, reloads='MCRlSIdown', **RL_112),
                    dict(nc=3, maxq=3, maxt=4, reloads='MCRlSame', **RL_1), dict(nc=3, maxq=3, maxt=5, reloads='MCRlBack', **RL_1),
                    dict(nc=3, maxq=3, maxt=5, reloads='MCRlMQ', **OLD_A), dict(nc=3, maxq=4, maxt=5, reloads='MCRlTM', **RL_112)]
    if thorough:
        configs += [dict(nc=4, maxq=2, maxt=5, last0=0, **OLD_A), dict(nc=4, maxq=3, maxt=4, last0=2, **OLD_B),
                    dict(nc=4, maxq=3, maxt=6, last0=0, **VAR_V), dict(nc=4, maxq=4, maxt=6, last0=0, **VAR_W)]
    for k in configs:
        r = c.model_check('Throttle_MC', cfg_text=cfg(**k), workers=12, timeout=3000, heap='16g')
        if not r.completed:
            c.inconclusive.append('Throttle.tla (compare-and-swap loop, per-call threshold) violates %s for %s' % (r.violated, k))
    c.cov['exhaustive'] = True
    scns, tr, muts = [], 0, []
    mjobs = [('pinned algorithm (CasLoop=FALSE)', dict(casloop=False), 'SpacingInv', base[0], gate_scn),
             ('pinned algorithm (CasLoop=FALSE)', dict(casloop=False), 'NoSpuriousInv', base[1], gate_scn),
             ('interval derived once per checker (PerCall=FALSE)', dict(percall=False), 'SpacingInv', var[0], gate_scn),
             ('interval derived once per checker (PerCall=FALSE)', dict(percall=False), 'NoSpuriousInv', var[0], gate_scn)]
    # a reload that changes only one parameter is taken for "unchanged" (the old checker stays in force)
    for st, inv, k in (('si', 'SpacingInv', rl[0]), ('si', 'NoSpuriousInv', rl[1]), ('mq', 'BoundedWaitInv', rl[3]), ('tm', 'SpacingInv', rl[4]))[:4 if thorough else 3]:
        mjobs.append(('reload changing only %s keeps the old checker (Stale=%s)' % (st, st), dict(stale=st), inv, k, gapi_scn))
    res = par_tlc(c, 'mut', [dict(module='Throttle_MC', cfg_text=cfg(inv=inv, **mut, **k), workers=4, timeout=900, count=False)
                             for _, mut, inv, k, _ in mjobs])
    for (name, mut, inv, k, mk), r in zip(mjobs, res):
        if r.violated != inv:
            raise MachineryError('vacuity guard: the %s must violate %s, got %s' % (name, inv, r.violated or r.error))
        tr += 1
        scns.append(mk(tr, last_sched(r.out) + [1, 2, 3] * 6, **k))
        muts.append('%s: %s: %s' % (name, inv, scns[-1]['sched']))
    # several rules on one resource (ThrottleList): exhaustive over every history of the bounded configurations; the same runs
    # print the complete histories (leaves) as scenarios; two spec-level mutants must be refuted
    lgen = [dict(nreq=8, **L_A), dict(nreq=5, **L_B), dict(nreq=7, **L_C), dict(nreq=4, **L_D), dict(nreq=6, **L_E)]
    lbig = [dict(nreq=13, **L_A), dict(nreq=7, **L_B), dict(nreq=10, **L_C), dict(nreq=6, **L_D), dict(nreq=9, **L_E)] if thorough else []
    lmut = [('every rule checked at the arrival instant, one sleep of the longest wait (Mode=atarrival)', 'atarrival', 'SpacingInv', dict(nreq=8, **L_A)),
            ('every rule checked at the arrival instant, one sleep of the longest wait (Mode=atarrival)', 'atarrival', 'SpacingInv', dict(nreq=7, **L_C)),
            ('a rejection does not end the walk over the rules (Mode=consultall)', 'consultall', 'NoSpuriousInv', dict(nreq=7, **L_C))]
    res = par_tlc(c, 'lst', [dict(module='ThrottleList_MC', cfg_text=lcfg(extra='ACTION_CONSTRAINT Leaf\n', **k), workers=2, timeout=600, count=False) for k in lgen] +
                  [dict(module='ThrottleList_MC', cfg_text=lcfg(**k), workers=8, timeout=3000, heap='8g', count=False) for k in lbig] +
                  [dict(module='ThrottleList_MC', cfg_text=lcfg(mode=m, inv=inv, **k), workers=2, timeout=600, count=False) for _, m, inv, k in lmut], width=8)
    lleaves, lcex = [], []
    for k, r in zip(lgen + lbig, res):
        if r.error:
            raise MachineryError('TLC failed on ThrottleList_MC %s: %s\n%s' % (k, r.error, r.out[-3000:]))
        c.cov['states'] += r.distinct
        c.cov['transitions'] += r.generated
        c.cov['tlc_runs'].append(dict(module='ThrottleList_MC', cfg=str(k), generated=r.generated, distinct=r.distinct, depth=r.depth,
                                      wall_s=round(r.wall, 1), args='', result='ok' if r.completed else r.violated))
        c.log('S1 ThrottleList_MC %s: %d distinct states, %d transitions, depth %d, %.0fs -> %s' % (
            k, r.distinct, r.generated, r.depth, r.wall, 'no error' if r.completed else 'VIOLATED ' + str(r.violated)))
        if not r.completed:
            c.inconclusive.append('ThrottleList.tla (rules in list order, the clock advances by each wait) violates %s for %s' % (r.violated, k))
        if k in lgen:
            hs = [[(q['gap'], q['batch']) for q in h] for h in r.json_prints() if len(h) == k['nreq']]
            if not hs:
                raise MachineryError('ThrottleList_MC %s printed no history' % k)
            lleaves.append((k, hs))
    for (name, m, inv, k), r in zip(lmut, res[len(lgen) + len(lbig):]):
        if r.violated != inv:
            raise MachineryError('vacuity guard: the mutant "%s" must violate %s, got %s' % (name, inv, r.violated or r.error))
        lcex.append((k['rules'], last_hist(r.out) + [(0, 1), (1, 1), (0, 1)]))
        muts.append('%s: %s: %s on %s' % (name, inv, lcex[-1][1], k['rules']))
    c.cov['spec_mutants'] = muts
    c.log('S1 vacuity guard: spec-level mutants refuted: %s' % muts)
    # S2 ---------------------------------------------------------------------------------------
    sims = [(k, 150 if not thorough else 1500) for k in base + var] + [(k, 100 if not thorough else 1000) for k in (rl if thorough else rl[:3])]
    res = par_tlc(c, 'sim', [dict(module='Throttle_Gen', cfg_text=cfg(extra='ACTION_CONSTRAINT Emit\n', **k).replace('INVARIANTS ' + ALLINV, ''),
                                  workers=1, timeout=900, count=False, args=['-simulate', 'num=%d' % num, '-depth', '40', '-seed', str(c.seed)])
                             for k, num in sims])
    rng = c.rng
    rng2 = random.Random(c.seed * 7919 + 10)    # the reload families draw from their own stream: the older families keep theirs
    for (k, num), r in zip(sims, res):
        if r.error:
            raise MachineryError('TLC simulation failed for %s: %s\n%s' % (k, r.error, r.out[-2000:]))
        if 'reloads' in k:
            hs = [h for h in maximal(r.json_prints()) if -1 in h]
            for sch in hs:
                tr += 1
                scns.append(gapi_scn(tr, sch, rng=rng2, **k))
        else:
            hs = maximal(r.json_prints())
            for sch in hs:
                tr += 1
                scns.append(gate_scn(tr, sch, **k))
        c.log('S2 TLC simulation %s: %d schedules' % (k, len(hs)))
    ntlc = len(scns)
    for i in range(800 if not thorough else 10000):
        tr += 1
        nc = rng.choice([2, 3, 3, 4, 5])
        ivl = [rng.choice([1, 2, 2, 3]) for _ in range(nc)]
        sched = [rng.choice([0, 0] + list(range(1, nc + 1)) * 3) for _ in range(rng.randint(8, 45))]
        scns.append(gate_scn(tr, sched, maxq=rng.choice([0, 1, 2, 3, 5]), last0=rng.choice([0, 0, 1, 2, 3]), btl=ivl, thl=[[4, 1]] * nc))
    ngate = len(scns)
    for i in range(1500 if not thorough else 20000):
        tr += 1
        scns.append(seq_scn(tr, rng))
    nseq = len(scns)
    # per-request thresholds: concurrent callers, MemoryAdaptive rule end to end, direct calls of the checker
    for i in range(800 if not thorough else 10000):
        tr += 1
        scns.append(var_gate_scn(tr, rng))
    for i in range(700 if not thorough else 10000):
        tr += 1
        scns.append(mem_scn(tr, rng))
    for i in range(700 if not thorough else 10000):
        tr += 1
        scns.append(chk_scn(tr, rng))
    # the rule is replaced under traffic: forced schedules with reloads on api.Entry, sequential histories with reloads
    for i in range(500 if not thorough else 6000):
        tr += 1
        scns.append(rnd_gapi_scn(tr, rng2))
    for i in range(1000 if not thorough else 12000):
        tr += 1
        scns.append(rl_scn(tr, rng2, mem=False))
    for i in range(400 if not thorough else 5000):
        tr += 1
        scns.append(rl_scn(tr, rng2, mem=True))
    # several throttling rules on one resource: the histories TLC enumerated (seeded sample), random lists, the shape
    # "queue of the fast rule deeper than the interval of the slower rule behind it"
    rng3 = random.Random(c.seed * 7919 + 11)
    for rules, hist in lcex:
        tr += 1
        scns.append(tick_list_scn(tr, rules, hist, src='mutant'))
    for k, hs in lleaves:
        for hist in (hs if thorough or len(hs) <= 120 else rng3.sample(hs, 120)):
            tr += 1
            scns.append(tick_list_scn(tr, k['rules'], hist, via=rng3.choice(['all', 'res'])))
    for i in range(600 if not thorough else 8000):
        tr += 1
        scns.append(rnd_list_scn(tr, rng3))
    for i in range(400 if not thorough else 5000):
        tr += 1
        scns.append(shape_list_scn(tr, rng3))
    # the first chunk feeds the binding self-test: it must contain every kind of scenario
    head = ([x for x in scns if x.get('rl') or x['mode'] == 'gapi'][:300] + [x for x in scns if x['mode'] == 'seq' and not x.get('rl')][:200] +
            [x for x in scns if x['mode'] == 'chk'][:100] + [x for x in scns if x['mode'] == 'list'][:150])
    hid = {x['tr'] for x in head}
    order = head + [x for x in scns if x['tr'] not in hid]
    # S3 + S4 ----------------------------------------------------------------------------------
    first = True
    for i in range(0, len(order), 5000):
        part = order[i:i + 5000]
        mism, tp = run_and_validate(c, drv, part, 'scn%d' % i)
        c.cov['conformance_mismatches'] += len(mism)
        handle(c, drv, part, mism, 'scn')
        if first and not c.violations:
            binding_selftest(c, tp)
            first = False
    c.cov['distinct_nontrivial'] = len({json.dumps(s, sort_keys=True) for s in
                                        [dict(x, tr=0) for x in scns if (x['mode'] in ('gate', 'gapi') and len(set(x['sched']) - {0, -1}) > 1) or
                                         (x['mode'] in ('seq', 'chk', 'list') and len([q for q in x['reqs'] if q.get('op') != 'reload']) > 1)]})

    def nthr(x):    # distinct thresholds handed to one checker
        if x['mode'] == 'gate':
            return len({tuple(t) for t in x['th']})
        if x['mode'] == 'chk':
            return len({(q['tn'], q['td']) for q in x['reqs']})
        if x.get('rl') or x['mode'] == 'gapi':
            return 1    # counted separately below
        if x.get('strategy') == 'mem':
            return len({mem_thr(x['low'], x['high'], x['lwm'], x['hwm'], q['mem']) for q in x['reqs']})
        return 1
    c.cov['scenarios_with_varying_threshold'] = sum(1 for x in scns if nthr(x) > 1)

    def after_reload(x):    # requests that arrive after the first reload / callers that start after the first reload step
        if x['mode'] == 'gapi':
            i = x['sched'].index(-1) if -1 in x['sched'] and x['reloads'] else len(x['sched'])
            return len(set(x['sched'][i:]) - set(x['sched'][:i]) - {0, -1}) if i < len(x['sched']) else 0
        ops = [q.get('op') == 'reload' for q in x['reqs']]
        return len(ops) - ops.index(True) - sum(ops[ops.index(True):]) if True in ops else 0
    rls = [x for x in scns if x.get('rl') or x['mode'] == 'gapi']
    c.cov['scenarios_with_rule_reload'] = len(rls)
    c.cov['scenarios_with_two_requests_after_a_reload'] = sum(1 for x in rls if after_reload(x) >= 2)
    kinds = {}
    for x in rls:
        for k in (x.get('rl') or [r.get('kind', 'tlc') for r in x['reloads']]):
            kinds[k] = kinds.get(k, 0) + 1
    c.cov['reloads_by_changed_parameter'] = kinds
    lsts = [x for x in scns if x['mode'] == 'list']
    c.cov['scenarios_with_several_rules'] = dict(total=len(lsts), **{k: sum(1 for x in lsts if x['src'] == k) for k in ('tlc', 'mutant', 'random', 'shape')},
                                                 three_rules=sum(1 for x in lsts if len(x['rules']) == 3))
    c.cov['rule'] = ('gate scenario = schedule forced on flow.ThrottlingChecker.DoCheck at the th.* yield points (%d from TLC: simulation of '
                     'Throttle + counterexamples of the spec-level mutants; %d seeded random with a constant threshold, %d with per-caller thresholds); '
                     'sequential scenario = arrival history in virtual ns: seeded random Direct throttling rule through api.Entry (%d), '
                     'MemoryAdaptive+Throttling rule with the memory usage moved between requests through api.Entry (%d), DoCheck calls with '
                     'per-call thresholds (%d); rule replaced under traffic (flow.LoadRules / LoadRulesOfResource changing exactly one of threshold, '
                     'statistic interval, queueing limit, or nothing): schedules with reload steps forced on api.Entry (%d, of which %d from TLC), '
                     'sequential histories with reloads through api.Entry (%d Direct, %d MemoryAdaptive); '
                     'several Direct+Throttling rules on one resource through api.Entry, sequential (%d, of which %d histories enumerated by TLC on ThrottleList); '
                     'non-trivial = distinct scenario with >= 2 callers moving / >= 2 requests'
                     % (sum(1 for x in scns[:ntlc] if x['mode'] == 'gate'), ngate - ntlc, sum(1 for x in scns[nseq:] if x['mode'] == 'gate'), nseq - ngate,
                        sum(1 for x in scns if x.get('strategy') == 'mem' and not x.get('rl')), sum(1 for x in scns if x['mode'] == 'chk'),
                        sum(1 for x in scns if x['mode'] == 'gapi'), sum(1 for x in scns[:ntlc] if x['mode'] == 'gapi'),
                        sum(1 for x in scns if x.get('rl') and x.get('strategy') != 'mem'), sum(1 for x in scns if x.get('rl') and x.get('strategy') == 'mem'),
                        len(lsts), sum(1 for x in lsts if x['src'] == 'tlc')))
    c.sample(scns[0])
    c.sample(scns[ngate - 1])
    c.sample(scns[nseq - 1])
    c.sample(scns[nseq])
    c.sample([x for x in scns if x.get('strategy') == 'mem'][0])
    c.sample([x for x in scns if x['mode'] == 'chk'][-1])
    c.sample([x for x in scns if x['mode'] == 'gapi'][0])
    c.sample([x for x in scns if x.get('rl')][0])
    c.sample([x for x in lsts if x['src'] == 'shape'][0])
    c.assumptions += ['spacing entitlement iv = ceil(batch * interval / threshold of that request) computed exactly (integers) by the trace spec; the real code may round '
                      'one ns up (float): NoSpuriousReject is judged with 1 ns slack in sequential traces',
                      'relative virtual times stay below 2^31 ns in sequential traces (TLC integers)',
                      'thresholds so small that the spacing overflows int64 are outside the modelled domain',
                      'MemoryAdaptive rules: the effective threshold is ThrottleProp!MemThr(rule, published memory usage); water marks are a power '
                      'of two apart so that the interpolation of the real code is exact in float64; WarmUp + Throttling is not driven end to end '
                      '(its moving threshold is covered by the per-call thresholds of the chk / gate scenarios)',
                      'rule reloads: a request is held to the rule in force at its arrival; Spacing is owed between admitted requests of the same '
                      'epoch of the rule list only (the first request after a reload owes nothing to passes scheduled under the previous rule; that an '
                      'unchanged reload keeps the queue position is C14), a rejection may count admitted requests of any epoch but only with the '
                      'spacing and the limit of the rule in force at its own arrival; the api.Entry gate (gapi) runs Direct rules with last0 = 0 only',
                      'several throttling rules on one resource (sequential callers): only the total wait of a request is observable; the trace '
                      'spec attributes it to the rules in list order (ThrottleProp!Attribute: least wait that keeps each rule\'s spacing, the last '
                      'rule takes the rest; a rejected request holds a reservation at every rule in front of the rejecting one and is judged at '
                      'arrival + what it really slept) and judges Spacing / BoundedWait / NoSpuriousReject per rule; 1 ns slack per rule in front for '
                      'the float rounding of a spacing; concurrent callers on a list of rules and reloads of a list are not driven',
                      'gate scenarios keep statInterval / threshold a whole number of ticks for every threshold of the scenario',
                      'exhaustive interleavings only for the bounded configurations listed in tlc_runs']


main('C10', check)
