"""C10 - throttling flow rules pace admitted requests and bound queueing.

S1  TLC explores spec/Throttle.tla (PlusCal; labels = th.* yield hooks of flow.ThrottlingChecker.DoCheck) for all
    interleavings of 3-4 callers and the clock and checks Spacing, BoundedWait, NoSpuriousReject (operators of
    ThrottleProp).  The pinned algorithm (idle-branch CAS falling through to load / add / roll-back) is kept as a
    spec-level mutant (CasLoop = FALSE): TLC must find its Spacing and NoSpuriousReject counterexamples, which are
    replayed on the real code.
S2  gate scenarios: TLC random simulation, the mutant's counterexamples, seeded random schedules;
    sequential scenarios: seeded random rules (fractional / zero thresholds, batches 0..3, several statistic
    intervals, queueing limits incl. 0) and arrival histories in virtual nanoseconds through api.Entry.
S3  harness/cmd/c10 (gate on the th.* hooks / api.Entry with the virtual clock recording the requested Sleep).
S4  spec/Throttle_Trace.tla (TLC) judges the recorded request-level traces with the same operators.
"""
import json, os, re
from fractions import Fraction
from math import ceil
from vlib import main, write_ndjson, read_ndjson, MachineryError

CFG = """SPECIFICATION Spec
CONSTANTS
  NC = %(nc)d
  Iv <- %(iv)s
  MaxQ = %(maxq)d
  MaxT = %(maxt)d
  Last0 = %(last0)d
  CasLoop = %(casloop)s
VIEW view
INVARIANTS %(inv)s
CHECK_DEADLOCK FALSE
%(extra)s"""
ALLINV = 'SpacingInv BoundedWaitInv NoSpuriousInv'


def cfg(nc=3, iv='MCIv', maxq=3, maxt=6, last0=0, casloop=True, inv=ALLINV, extra=''):
    return CFG % dict(nc=nc, iv=iv, maxq=maxq, maxt=maxt, last0=last0, casloop='TRUE' if casloop else 'FALSE', inv=inv, extra=extra)


def ivs(name, nc):
    return [2] * nc if name == 'MCIv' else [((x - 1) % 3) + 1 for x in range(1, nc + 1)]


def gate_scn(tr, sched, nc=3, iv='MCIv', maxq=3, last0=0, ivl=None):
    return dict(tr=tr, mode='gate', maxq=maxq, last0=last0, iv=ivl if ivl is not None else ivs(iv, nc), sched=sched)


def last_sched(out):
    m = re.findall(r'/\\ sched = <<([^>]*)>>', out)
    return [int(x) for x in re.findall(r'-?\d+', m[-1])] if m else None


def maximal(hs):
    keys = sorted(json.dumps(x)[:-1] for x in hs)
    out = []
    for i, k in enumerate(keys):
        if i + 1 < len(keys) and keys[i + 1].startswith(k) and (keys[i + 1] == k or keys[i + 1][len(k)] == ','):
            continue
        out.append(json.loads(k + ']'))
    return out


def seq_scn(tr, rng):
    thr = rng.choice([Fraction(1, 2), Fraction(1), Fraction(2), Fraction(5, 2), Fraction(3), Fraction(4), Fraction(10), Fraction(0), Fraction(100)])
    interval_ms = rng.choice([1, 2, 5, 10, 10, 50, 100, 1000])
    maxq_ms = rng.choice([0, 0, 1, 2, 5, 20, 100, 500])
    reqs, t = [], 0
    budget = 1_900_000_000
    for _ in range(rng.randint(3, 14)):
        b = rng.choice([0, 1, 1, 1, 2, 3])
        big = thr <= 0 or b > thr
        iv = 0 if (b == 0 or thr <= 0) else ceil(Fraction(b * interval_ms * 1_000_000) / thr)
        base_iv = ceil(Fraction(interval_ms * 1_000_000) / thr) if thr > 0 else interval_ms * 1_000_000
        gap = rng.choice([0, 0, 1, base_iv - 1, base_iv, base_iv + 1, base_iv // 2, 2 * base_iv, rng.randint(0, 2 * base_iv), maxq_ms * 1_000_000])
        if t + gap + maxq_ms * 1_000_000 + 2 * base_iv > budget or iv > 1_000_000_000:
            break
        t += gap + maxq_ms * 1_000_000      # worst case: the request waits the full limit
        reqs.append(dict(gap=gap, batch=b, iv=iv, big=big))
    if not reqs:
        reqs = [dict(gap=0, batch=1, iv=ceil(Fraction(interval_ms * 1_000_000) / thr) if thr > 0 else 0, big=thr <= 0 or 1 > thr)]
    return dict(tr=tr, mode='seq', thr_num=thr.numerator, thr_den=thr.denominator, interval_ms=interval_ms, maxq_ms=maxq_ms, reqs=reqs)


def run_and_validate(c, drv, scns, tag):
    sp = os.path.join(c.scratch, tag + '.scn.ndjson')
    tp = os.path.join(c.scratch, tag + '.trace.ndjson')
    write_ndjson(sp, scns)
    c.run([drv, sp, tp], timeout=1200)
    nlines = sum(1 for _ in open(tp))
    mism, consumed, r = c.validate('Throttle_Trace', tp, nlines)
    if consumed != nlines:
        raise MachineryError('%s: trace validation consumed %d of %d lines\n%s' % (tag, consumed, nlines, r.out[-1500:]))
    c.cov['traces_validated_against_impl'] += len(scns)
    c.cov['evaluations'] += nlines
    c.log('S3/S4 %s: %d executions of the real checker, %d events validated in %.0fs, %d rejected' % (tag, len(scns), nlines, r.wall, len(mism)))
    return mism, tp


def classify(exp):
    return None


def handle(c, drv, scns, mism, tag):
    by = {s['tr']: s for s in scns}
    for tr, line, exp in mism:
        if len(c.violations) >= 5:
            break
        s = by[tr]
        rp = c.save_replay('%s-tr%d.ndjson' % (tag, tr), [s])
        ok = 0
        for i in range(2):
            m2, _ = run_and_validate(c, drv, [s], 'confirm%d' % i)
            ok += 1 if m2 else 0
        if ok < 2:
            c.inconclusive.append('rejection of %s scenario %d did not reproduce (%d/2)' % (tag, tr, ok))
            continue
        key = classify(exp)
        if key and c.is_known(key):
            c.known(key, c.kf[key]['description'])
        else:
            what = ('forced schedule %s (iv=%s maxq=%s)' % (s['sched'], s['iv'], s['maxq'])) if s['mode'] == 'gate' else \
                   ('sequential history thr=%s/%s interval=%sms maxq=%sms %s' % (s['thr_num'], s['thr_den'], s['interval_ms'], s['maxq_ms'], s['reqs']))
            c.violation('real throttling checker violates C10 under %s: %s' % (what, exp[:500]), rp)


def binding_selftest(c, tp):
    """shorten the wait of an admitted, waiting request to 0 (it then shares the slot of its predecessor) or make a
    request wait beyond the limit: every corrupted trace must be rejected"""
    lines = [json.loads(l) for l in open(tp)]
    traces, cur = [], None
    for e in lines:
        if e['op'] == 'new':
            cur = []
            traces.append(cur)
        cur.append(e)
    out, want = [], 0
    for t in traces:
        if want >= 30:
            break
        waits = [e for e in t if e['op'] == 'ret' and e['res'] == 'pass' and e['w'] > 0]
        if not waits:
            continue
        t = [dict(e) for e in t]
        maxq = t[0]['maxq']
        for e in t:
            if e['op'] == 'ret' and e['res'] == 'pass' and e['w'] > 0:
                e['w'] = maxq + 1 if want % 2 else 0
                break
        out += t
        want += 1
    if want == 0:
        raise MachineryError('binding self-test: no trace with a waiting request')
    cp = os.path.join(c.scratch, 'corrupt.ndjson')
    write_ndjson(cp, out)
    mism, consumed, r = c.validate('Throttle_Trace', cp, len(out))
    if len({m[0] for m in mism}) != want:
        raise MachineryError('binding self-test failed: %d corrupted traces, %d rejected' % (want, len(mism)))
    c.cov['binding_selftest'] = '%d corrupted traces (wait zeroed / wait beyond the limit), all rejected' % want
    c.log('binding self-test: %d corrupted traces, all rejected' % want)


def check(c, tier, replay):
    drv = c.build('c10')
    if replay:
        s = read_ndjson(replay)
        mism, _ = run_and_validate(c, drv, s, 'replay')
        if mism:
            c.violation('replayed scenario violates C10: %s' % mism[0][2][:500], replay)
        c.cov['states'] = c.cov['transitions'] = 1
        c.sample(s[0])
        return
    thorough = tier == 'thorough'
    # S1 ---------------------------------------------------------------------------------------
    configs = [dict(nc=3, iv='MCIv', maxq=3, maxt=6, last0=0), dict(nc=3, iv='MCIv123', maxq=2, maxt=5, last0=2),
               dict(nc=3, iv='MCIv123', maxq=0, maxt=5, last0=0)]
    if thorough:
        configs += [dict(nc=4, iv='MCIv', maxq=2, maxt=5, last0=0), dict(nc=4, iv='MCIv123', maxq=3, maxt=4, last0=2)]
    for k in configs:
        r = c.model_check('Throttle_MC', cfg_text=cfg(**k), workers=12, timeout=3000, heap='16g')
        if not r.completed:
            c.inconclusive.append('Throttle.tla (compare-and-swap loop) violates %s for %s' % (r.violated, k))
    c.cov['exhaustive'] = True
    scns, tr, muts = [], 0, []
    for inv, k in (('SpacingInv', dict(nc=3, iv='MCIv', maxq=3, maxt=6, last0=0)), ('NoSpuriousInv', dict(nc=3, iv='MCIv123', maxq=2, maxt=5, last0=2))):
        r = c.tlc('Throttle_MC', cfg_text=cfg(casloop=False, inv=inv, **k), workers=4, timeout=900, count=False)
        if r.violated != inv:
            raise MachineryError('vacuity guard: the pinned algorithm (CasLoop=FALSE) must violate %s, got %s' % (inv, r.violated or r.error))
        tr += 1
        scns.append(gate_scn(tr, last_sched(r.out) + [1, 2, 3] * 6, nc=k['nc'], iv=k['iv'], maxq=k['maxq'], last0=k['last0']))
        muts.append('%s: %s' % (inv, scns[-1]['sched']))
    c.cov['spec_mutants'] = muts
    c.log('S1 vacuity guard: pinned algorithm violates %s' % muts)
    # S2 ---------------------------------------------------------------------------------------
    for k in configs[:3]:
        num = 150 if not thorough else 1500
        r = c.tlc('Throttle_Gen', cfg_text=cfg(extra='ACTION_CONSTRAINT Emit\n', **k).replace('INVARIANTS ' + ALLINV, ''),
                  workers=1, timeout=900, count=False, args=['-simulate', 'num=%d' % num, '-depth', '40', '-seed', str(c.seed)])
        hs = maximal(r.json_prints())
        for sch in hs:
            tr += 1
            scns.append(gate_scn(tr, sch, nc=k['nc'], iv=k['iv'], maxq=k['maxq'], last0=k['last0']))
        c.log('S2 TLC simulation %s: %d schedules' % (k, len(hs)))
    ntlc = len(scns)
    rng = c.rng
    for i in range(800 if not thorough else 10000):
        tr += 1
        nc = rng.choice([2, 3, 3, 4, 5])
        ivl = [rng.choice([1, 2, 2, 3]) for _ in range(nc)]
        sched = [rng.choice([0, 0] + list(range(1, nc + 1)) * 3) for _ in range(rng.randint(8, 45))]
        scns.append(gate_scn(tr, sched, maxq=rng.choice([0, 1, 2, 3, 5]), last0=rng.choice([0, 0, 1, 2, 3]), ivl=ivl))
    ngate = len(scns)
    for i in range(1500 if not thorough else 20000):
        tr += 1
        scns.append(seq_scn(tr, rng))
    # S3 + S4 ----------------------------------------------------------------------------------
    first = True
    for i in range(0, len(scns), 4000):
        part = scns[i:i + 4000]
        mism, tp = run_and_validate(c, drv, part, 'scn%d' % i)
        c.cov['conformance_mismatches'] += len(mism)
        handle(c, drv, part, mism, 'scn')
        if first and not c.violations:
            binding_selftest(c, tp)
            first = False
    c.cov['distinct_nontrivial'] = len({json.dumps(s, sort_keys=True) for s in
                                        [dict(x, tr=0) for x in scns if (x['mode'] == 'gate' and len(set(x['sched']) - {0}) > 1) or
                                         (x['mode'] == 'seq' and len(x['reqs']) > 1)]})
    c.cov['rule'] = ('gate scenario = schedule forced on flow.ThrottlingChecker.DoCheck at the th.* yield points (%d from TLC: simulation of '
                     'Throttle + counterexamples of the pinned algorithm; %d seeded random); sequential scenario = seeded random throttling rule + '
                     'arrival history in virtual ns through api.Entry (%d); non-trivial = distinct scenario with >= 2 callers moving / >= 2 requests'
                     % (ntlc, ngate - ntlc, len(scns) - ngate))
    c.sample(scns[0])
    c.sample(scns[ngate - 1])
    c.sample(scns[-1])
    c.assumptions += ['spacing entitlement iv = ceil(batch * interval / threshold) computed exactly (rationals) by the generator; the real code may round '
                      'one ns up (float): NoSpuriousReject is judged with 1 ns slack in sequential traces',
                      'relative virtual times stay below 2^31 ns in sequential traces (TLC integers)',
                      'thresholds so small that the spacing overflows int64 are outside the modelled domain',
                      'exhaustive interleavings only for the bounded configurations listed in tlc_runs']


main('C10', check)
