"""C10 - throttling flow rules pace admitted requests and bound queueing.

S1  TLC explores spec/Throttle.tla (PlusCal; labels = th.* yield hooks of flow.ThrottlingChecker.DoCheck) for all
    interleavings of 3-4 callers and the clock and checks Spacing, BoundedWait, NoSpuriousReject (operators of
    ThrottleProp).  Every request carries its own batch and its own THRESHOLD (an argument of each check: constant for
    Direct rules, moving for MemoryAdaptive / WarmUp rules); the spacing it owes is computed from that threshold.
    Two spec-level mutants must be refuted by TLC and their counterexamples are replayed on the real code:
    the pinned algorithm (CasLoop = FALSE: idle-branch CAS falling through to load / add / roll-back) and a checker
    that derives the per-token interval once, from its first request (PerCall = FALSE).
S2  gate scenarios: TLC random simulation, the mutants' counterexamples, seeded random schedules (constant and
    per-caller thresholds);
    sequential scenarios in virtual nanoseconds: seeded random Direct rules (fractional / zero thresholds, batches 0..3,
    several statistic intervals, queueing limits incl. 0) and MemoryAdaptive + Throttling rules whose effective threshold
    is moved between requests with system_metric.SetSystemMemoryUsage, both through api.Entry; and direct DoCheck
    calls on one checker with a different threshold argument from call to call.
S3  harness/cmd/c10 (gate on the th.* hooks / api.Entry with the virtual clock recording the requested Sleep / DoCheck).
S4  spec/Throttle_Trace.tla (TLC) judges the recorded request-level traces with the same operators; it derives the
    threshold of a MemoryAdaptive request from the published memory usage (ThrottleProp!MemThr) and the owed spacing
    from the request's own threshold (ThrottleProp!Iv).
"""
import json, os, re
from fractions import Fraction
from math import ceil
from vlib import main, write_ndjson, read_ndjson, MachineryError

CFG = """SPECIFICATION Spec
CONSTANTS
  NC = %(nc)d
  Bt <- %(bt)s
  Th <- %(th)s
  SI = %(si)d
  MaxQ = %(maxq)d
  MaxT = %(maxt)d
  Last0 = %(last0)d
  CasLoop = %(casloop)s
  PerCall = %(percall)s
VIEW view
INVARIANTS %(inv)s
CHECK_DEADLOCK FALSE
%(extra)s"""
ALLINV = 'SpacingInv BoundedWaitInv NoSpuriousInv'
# Python mirror of the per-caller constants of spec/Throttle_MC.tla (x = 1..NC)
FAM = {'MCBt2': lambda x: 2, 'MCBt123': lambda x: ((x - 1) % 3) + 1, 'MCTh4': lambda x: [4, 1],
       'MCBtV': lambda x: [1, 1, 2, 1][(x - 1) % 4], 'MCThV': lambda x: [[4, 1], [2, 1], [2, 1], [1, 1]][(x - 1) % 4],
       'MCBtW': lambda x: [1, 2, 1, 0][(x - 1) % 4], 'MCThW': lambda x: [[1, 1], [4, 1], [1, 2], [2, 1]][(x - 1) % 4]}
OLD_A = dict(bt='MCBt2', th='MCTh4', si=4)      # constant threshold: every caller owes 2 ticks
OLD_B = dict(bt='MCBt123', th='MCTh4', si=4)    # constant threshold, batches 1, 2, 3
VAR_V = dict(bt='MCBtV', th='MCThV', si=4)      # thresholds 4, 2, 2, 1: spacings 1, 2, 4, 4
VAR_W = dict(bt='MCBtW', th='MCThW', si=4)      # thresholds 1, 4, 1/2 (batch over threshold), 2 (batch 0)


def cfg(nc=3, bt='MCBt2', th='MCTh4', si=4, maxq=3, maxt=6, last0=0, casloop=True, percall=True, inv=ALLINV, extra=''):
    return CFG % dict(nc=nc, bt=bt, th=th, si=si, maxq=maxq, maxt=maxt, last0=last0, casloop='TRUE' if casloop else 'FALSE',
                      percall='TRUE' if percall else 'FALSE', inv=inv, extra=extra)


def gate_scn(tr, sched, nc=3, bt='MCBt2', th='MCTh4', si=4, maxq=3, last0=0, btl=None, thl=None, **_):
    return dict(tr=tr, mode='gate', maxq=maxq, last0=last0, si=si,
                bt=btl if btl is not None else [FAM[bt](x) for x in range(1, nc + 1)],
                th=thl if thl is not None else [FAM[th](x) for x in range(1, nc + 1)], sched=sched)


def last_sched(out):
    m = re.findall(r'/\\ sched = <<([^>]*)>>', out)
    return [int(x) for x in re.findall(r'-?\d+', m[-1])] if m else None


def maximal(hs):
    keys = sorted(json.dumps(x)[:-1] for x in hs)
    out = []
    for i, k in enumerate(keys):
        if i + 1 < len(keys) and keys[i + 1].startswith(k) and (keys[i + 1] == k or keys[i + 1][len(k)] == ','):
            continue
        out.append(json.loads(k + ']'))
    return out


def seq_scn(tr, rng):
    thr = rng.choice([Fraction(1, 2), Fraction(1), Fraction(2), Fraction(5, 2), Fraction(3), Fraction(4), Fraction(10), Fraction(0), Fraction(100)])
    interval_ms = rng.choice([1, 2, 5, 10, 10, 50, 100, 1000])
    maxq_ms = rng.choice([0, 0, 1, 2, 5, 20, 100, 500])
    reqs, t = [], 0
    budget = 1_900_000_000
    for _ in range(rng.randint(3, 14)):
        b = rng.choice([0, 1, 1, 1, 2, 3])
        big = thr <= 0 or b > thr
        iv = 0 if (b == 0 or thr <= 0) else ceil(Fraction(b * interval_ms * 1_000_000) / thr)
        base_iv = ceil(Fraction(interval_ms * 1_000_000) / thr) if thr > 0 else interval_ms * 1_000_000
        gap = rng.choice([0, 0, 1, base_iv - 1, base_iv, base_iv + 1, base_iv // 2, 2 * base_iv, rng.randint(0, 2 * base_iv), maxq_ms * 1_000_000])
        if t + gap + maxq_ms * 1_000_000 + 2 * base_iv > budget or iv > 1_000_000_000:
            break
        t += gap + maxq_ms * 1_000_000      # worst case: the request waits the full limit
        reqs.append(dict(gap=gap, batch=b, iv=iv, big=big))
    if not reqs:
        reqs = [dict(gap=0, batch=1, iv=ceil(Fraction(interval_ms * 1_000_000) / thr) if thr > 0 else 0, big=thr <= 0 or 1 > thr)]
    return dict(tr=tr, mode='seq', thr_num=thr.numerator, thr_den=thr.denominator, interval_ms=interval_ms, maxq_ms=maxq_ms, reqs=reqs)


NS = 1_000_000
BUDGET = 1_900_000_000      # relative virtual times (and time + owed spacing) stay below 2^31 ns


def owed(b, thr, interval_ms):
    return 0 if (b == 0 or thr <= 0) else ceil(Fraction(b * interval_ms * NS) / thr)


def gaps(rng, base_iv, maxq_ms):
    return rng.choice([0, 0, 1, base_iv - 1, base_iv, base_iv + 1, base_iv // 2, 2 * base_iv, rng.randint(0, 2 * base_iv), maxq_ms * NS])


def mem_thr(low, high, lwm, hwm, mem):
    """threshold of a MemoryAdaptive rule (mirror of ThrottleProp!MemThr; only used to size gaps / the time budget)"""
    if mem <= lwm:
        return Fraction(low)
    if mem >= hwm:
        return Fraction(high)
    return Fraction(low * (hwm - lwm) + (high - low) * (mem - lwm), hwm - lwm)


def mem_scn(tr, rng):
    """MemoryAdaptive + Throttling rule through api.Entry; the memory usage (hence the threshold) moves between requests"""
    low = rng.choice([100, 100, 50, 20, 10, 4])
    high = rng.choice([h for h in (1, 2, 5, 10, 25, 40) if h < low])
    lwm = rng.choice([4, 1024, 1 << 20])
    width = rng.choice([4, 8])
    hwm = lwm + width
    interval_ms = rng.choice([1, 10, 10, 100, 100, 1000])
    maxq_ms = rng.choice([0, 1, 2, 5, 20, 50, 100, 500])
    levels = [0, lwm, hwm, hwm + 7] + [lwm + k for k in range(1, width)]
    mem = rng.choice([0, hwm + 7, rng.choice(levels)])
    reqs, t = [], 0
    for _ in range(rng.randint(4, 14)):
        if rng.random() < 0.4:
            mem = rng.choice([0, hwm + 7, rng.choice(levels)])
        thr = mem_thr(low, high, lwm, hwm, mem)
        b = rng.choice([0, 1, 1, 1, 1, 2, 3])
        iv, base_iv = owed(b, thr, interval_ms), owed(1, thr, interval_ms)
        gap = gaps(rng, base_iv, maxq_ms)
        if t + gap + maxq_ms * NS + max(iv, 3 * base_iv) + 2 > BUDGET or iv > 1_000_000_000:
            break
        t += gap + maxq_ms * NS
        reqs.append(dict(gap=gap, batch=b, mem=mem))
    if not reqs:
        reqs = [dict(gap=0, batch=1, mem=0)]
    return dict(tr=tr, mode='seq', strategy='mem', low=low, high=high, lwm=lwm, hwm=hwm, interval_ms=interval_ms, maxq_ms=maxq_ms, reqs=reqs)


def chk_scn(tr, rng):
    """sequential DoCheck calls on one checker, each with its own threshold argument"""
    pool = rng.choice([[Fraction(100), Fraction(10), Fraction(4), Fraction(1)],
                       [Fraction(1, 2), Fraction(1), Fraction(2), Fraction(5, 2), Fraction(3), Fraction(4)],
                       [Fraction(10), Fraction(25), Fraction(7, 2), Fraction(0), Fraction(1000)],
                       [Fraction(2), Fraction(4)], [Fraction(100), Fraction(10)]])
    interval_ms = rng.choice([1, 2, 5, 10, 10, 50, 100, 1000])
    maxq_ms = rng.choice([0, 0, 1, 2, 5, 20, 100, 500])
    sleep = rng.random() < 0.5
    thr = rng.choice(pool)
    reqs, t = [], 0
    for _ in range(rng.randint(3, 14)):
        if rng.random() < 0.5:
            thr = rng.choice(pool)
        b = rng.choice([0, 1, 1, 1, 2, 3])
        iv = owed(b, thr, interval_ms)
        base_iv = owed(1, thr, interval_ms) if thr > 0 else interval_ms * NS
        gap = gaps(rng, base_iv, maxq_ms)
        if t + gap + maxq_ms * NS + max(iv, 3 * base_iv) + 2 > BUDGET or iv > 1_000_000_000:
            break
        t += gap + (maxq_ms * NS if sleep else 0)
        reqs.append(dict(gap=gap, batch=b, tn=thr.numerator, td=thr.denominator))
    if not reqs:
        reqs = [dict(gap=0, batch=1, tn=1, td=1)]
    return dict(tr=tr, mode='chk', interval_ms=interval_ms, maxq_ms=maxq_ms, sleep=sleep, reqs=reqs)


def var_gate_scn(tr, rng):
    """random schedule, every caller with its own threshold; si / threshold is a whole number of ticks for every
    threshold of the scenario, so that every wait is a whole number of ticks"""
    si = rng.choice([4, 4, 8])
    pool = [[si, 1], [si, 1], [si // 2, 1], [si // 2, 1], [si // 4, 1], [1, 1] if si == 8 else [1, 2]]
    nc = rng.choice([2, 3, 3, 4, 5])
    thl = [rng.choice(pool) for _ in range(nc)]
    btl = [rng.choice([0, 1, 1, 1, 2, 2, 3]) for _ in range(nc)]
    sched = [rng.choice([0, 0] + list(range(1, nc + 1)) * 3) for _ in range(rng.randint(8, 45))]
    return gate_scn(tr, sched, si=si, maxq=rng.choice([0, 1, 2, 3, 5, 8]), last0=rng.choice([0, 0, 1, 2, 3]), btl=btl, thl=thl)


def run_and_validate(c, drv, scns, tag):
    sp = os.path.join(c.scratch, tag + '.scn.ndjson')
    tp = os.path.join(c.scratch, tag + '.trace.ndjson')
    write_ndjson(sp, scns)
    c.run([drv, sp, tp], timeout=1200)
    nlines = sum(1 for _ in open(tp))
    mism, consumed, r = c.validate('Throttle_Trace', tp, nlines)
    if consumed != nlines:
        raise MachineryError('%s: trace validation consumed %d of %d lines\n%s' % (tag, consumed, nlines, r.out[-1500:]))
    c.cov['traces_validated_against_impl'] += len(scns)
    c.cov['evaluations'] += nlines
    c.log('S3/S4 %s: %d executions of the real checker, %d events validated in %.0fs, %d rejected' % (tag, len(scns), nlines, r.wall, len(mism)))
    return mism, tp


def classify(exp):
    return None


def describe(s):
    if s['mode'] == 'gate':
        if 'bt' in s:
            return 'forced schedule %s (batches=%s thresholds=%s si=%s maxq=%s last0=%s)' % (s['sched'], s['bt'], s['th'], s['si'], s['maxq'], s['last0'])
        return 'forced schedule %s (iv=%s maxq=%s)' % (s['sched'], s['iv'], s['maxq'])
    if s['mode'] == 'chk':
        return 'sequential DoCheck calls with per-call thresholds interval=%sms maxq=%sms sleep=%s %s' % (s['interval_ms'], s['maxq_ms'], s.get('sleep'), s['reqs'])
    if s.get('strategy') == 'mem':
        return ('sequential history through api.Entry, MemoryAdaptive+Throttling rule low=%s high=%s water marks %s..%s interval=%sms maxq=%sms %s'
                % (s['low'], s['high'], s['lwm'], s['hwm'], s['interval_ms'], s['maxq_ms'], s['reqs']))
    return 'sequential history thr=%s/%s interval=%sms maxq=%sms %s' % (s['thr_num'], s['thr_den'], s['interval_ms'], s['maxq_ms'], s['reqs'])


def handle(c, drv, scns, mism, tag):
    by = {s['tr']: s for s in scns}
    for tr, line, exp in mism:
        if len(c.violations) >= 5:
            break
        s = by[tr]
        rp = c.save_replay('%s-tr%d.ndjson' % (tag, tr), [s])
        ok = 0
        for i in range(2):
            m2, _ = run_and_validate(c, drv, [s], 'confirm%d' % i)
            ok += 1 if m2 else 0
        if ok < 2:
            c.inconclusive.append('rejection of %s scenario %d did not reproduce (%d/2)' % (tag, tr, ok))
            continue
        key = classify(exp)
        if key and c.is_known(key):
            c.known(key, c.kf[key]['description'])
        else:
            what = describe(s)
            c.violation('real throttling checker violates C10 under %s: %s' % (what, exp[:500]), rp)


def binding_selftest(c, tp):
    """shorten the wait of an admitted, waiting request to 0 (it then shares the slot of its predecessor), make a
    request wait beyond the limit, or quarter the recorded threshold of a waiting request (it then owes four times the
    spacing it was given): every corrupted trace must be rejected"""
    lines = [json.loads(l) for l in open(tp)]
    traces, cur = [], None
    for e in lines:
        if e['op'] == 'new':
            cur = []
            traces.append(cur)
        cur.append(e)
    out, want, kinds = [], 0, [0, 0, 0]
    for t in traces:
        if want >= 30:
            break
        waits = [e for e in t if e['op'] == 'ret' and e['res'] == 'pass' and e['w'] > 0]
        if not waits:
            continue
        t = [dict(e) for e in t]
        maxq = t[0]['maxq']
        for e in t:
            if e['op'] == 'ret' and e['res'] == 'pass' and e['w'] > 0:
                iv = [x for x in t if x['op'] == 'inv' and x['p'] == e['p']][-1]
                if want % 3 == 2 and 'tn' in iv:
                    iv['td'] *= 4
                    kinds[2] += 1
                else:
                    e['w'] = maxq + 1 if want % 3 == 1 else 0
                    kinds[want % 3 == 1] += 1
                break
        out += t
        want += 1
    if want == 0:
        raise MachineryError('binding self-test: no trace with a waiting request')
    cp = os.path.join(c.scratch, 'corrupt.ndjson')
    write_ndjson(cp, out)
    mism, consumed, r = c.validate('Throttle_Trace', cp, len(out))
    if len({m[0] for m in mism}) != want:
        raise MachineryError('binding self-test failed: %d corrupted traces, %d rejected' % (want, len(mism)))
    c.cov['binding_selftest'] = '%d corrupted traces (%d wait zeroed / %d wait beyond the limit / %d threshold of the request quartered), all rejected' % (want, kinds[0], kinds[1], kinds[2])
    c.log('binding self-test: %d corrupted traces, all rejected' % want)


def check(c, tier, replay):
    drv = c.build('c10')
    if replay:
        s = read_ndjson(replay)
        mism, _ = run_and_validate(c, drv, s, 'replay')
        if mism:
            c.violation('replayed scenario violates C10: %s' % mism[0][2][:500], replay)
        c.cov['states'] = c.cov['transitions'] = 1
        c.sample(s[0])
        return
    thorough = tier == 'thorough'
    # S1 ---------------------------------------------------------------------------------------
    base = [dict(nc=3, maxq=3, maxt=6, last0=0, **OLD_A), dict(nc=3, maxq=2, maxt=5, last0=2, **OLD_B),
            dict(nc=3, maxq=0, maxt=5, last0=0, **OLD_B)]
    # the threshold differs from caller to caller
    var = [dict(nc=3, maxq=3, maxt=6, last0=0, **VAR_V), dict(nc=4, maxq=2, maxt=5, last0=2, **VAR_W)]
    configs = base + var
    if thorough:
        configs += [dict(nc=4, maxq=2, maxt=5, last0=0, **OLD_A), dict(nc=4, maxq=3, maxt=4, last0=2, **OLD_B),
                    dict(nc=4, maxq=3, maxt=6, last0=0, **VAR_V), dict(nc=4, maxq=4, maxt=6, last0=0, **VAR_W)]
    for k in configs:
        r = c.model_check('Throttle_MC', cfg_text=cfg(**k), workers=12, timeout=3000, heap='16g')
        if not r.completed:
            c.inconclusive.append('Throttle.tla (compare-and-swap loop, per-call threshold) violates %s for %s' % (r.violated, k))
    c.cov['exhaustive'] = True
    scns, tr, muts = [], 0, []
    for name, mut, inv, k in (('pinned algorithm (CasLoop=FALSE)', dict(casloop=False), 'SpacingInv', base[0]),
                              ('pinned algorithm (CasLoop=FALSE)', dict(casloop=False), 'NoSpuriousInv', base[1]),
                              ('interval derived once per checker (PerCall=FALSE)', dict(percall=False), 'SpacingInv', var[0]),
                              ('interval derived once per checker (PerCall=FALSE)', dict(percall=False), 'NoSpuriousInv', var[0])):
        r = c.tlc('Throttle_MC', cfg_text=cfg(inv=inv, **mut, **k), workers=4, timeout=900, count=False)
        if r.violated != inv:
            raise MachineryError('vacuity guard: the %s must violate %s, got %s' % (name, inv, r.violated or r.error))
        tr += 1
        scns.append(gate_scn(tr, last_sched(r.out) + [1, 2, 3] * 6, **k))
        muts.append('%s: %s: %s' % (name, inv, scns[-1]['sched']))
    c.cov['spec_mutants'] = muts
    c.log('S1 vacuity guard: spec-level mutants refuted: %s' % muts)
    # S2 ---------------------------------------------------------------------------------------
    for k in base + var:
        num = 150 if not thorough else 1500
        r = c.tlc('Throttle_Gen', cfg_text=cfg(extra='ACTION_CONSTRAINT Emit\n', **k).replace('INVARIANTS ' + ALLINV, ''),
                  workers=1, timeout=900, count=False, args=['-simulate', 'num=%d' % num, '-depth', '40', '-seed', str(c.seed)])
        hs = maximal(r.json_prints())
        for sch in hs:
            tr += 1
            scns.append(gate_scn(tr, sch, **k))
        c.log('S2 TLC simulation %s: %d schedules' % (k, len(hs)))
    ntlc = len(scns)
    rng = c.rng
    for i in range(800 if not thorough else 10000):
        tr += 1
        nc = rng.choice([2, 3, 3, 4, 5])
        ivl = [rng.choice([1, 2, 2, 3]) for _ in range(nc)]
        sched = [rng.choice([0, 0] + list(range(1, nc + 1)) * 3) for _ in range(rng.randint(8, 45))]
        scns.append(gate_scn(tr, sched, maxq=rng.choice([0, 1, 2, 3, 5]), last0=rng.choice([0, 0, 1, 2, 3]), btl=ivl, thl=[[4, 1]] * nc))
    ngate = len(scns)
    for i in range(1500 if not thorough else 20000):
        tr += 1
        scns.append(seq_scn(tr, rng))
    nseq = len(scns)
    # per-request thresholds: concurrent callers, MemoryAdaptive rule end to end, direct calls of the checker
    for i in range(800 if not thorough else 10000):
        tr += 1
        scns.append(var_gate_scn(tr, rng))
    for i in range(700 if not thorough else 10000):
        tr += 1
        scns.append(mem_scn(tr, rng))
    for i in range(700 if not thorough else 10000):
        tr += 1
        scns.append(chk_scn(tr, rng))
    # S3 + S4 ----------------------------------------------------------------------------------
    first = True
    for i in range(0, len(scns), 4000):
        part = scns[i:i + 4000]
        mism, tp = run_and_validate(c, drv, part, 'scn%d' % i)
        c.cov['conformance_mismatches'] += len(mism)
        handle(c, drv, part, mism, 'scn')
        if first and not c.violations:
            binding_selftest(c, tp)
            first = False
    c.cov['distinct_nontrivial'] = len({json.dumps(s, sort_keys=True) for s in
                                        [dict(x, tr=0) for x in scns if (x['mode'] == 'gate' and len(set(x['sched']) - {0}) > 1) or
                                         (x['mode'] in ('seq', 'chk') and len(x['reqs']) > 1)]})

    def nthr(x):    # distinct thresholds handed to one checker
        if x['mode'] == 'gate':
            return len({tuple(t) for t in x['th']})
        if x['mode'] == 'chk':
            return len({(q['tn'], q['td']) for q in x['reqs']})
        if x.get('strategy') == 'mem':
            return len({mem_thr(x['low'], x['high'], x['lwm'], x['hwm'], q['mem']) for q in x['reqs']})
        return 1
    c.cov['scenarios_with_varying_threshold'] = sum(1 for x in scns if nthr(x) > 1)
    c.cov['rule'] = ('gate scenario = schedule forced on flow.ThrottlingChecker.DoCheck at the th.* yield points (%d from TLC: simulation of '
                     'Throttle + counterexamples of the spec-level mutants; %d seeded random with a constant threshold, %d with per-caller thresholds); '
                     'sequential scenario = arrival history in virtual ns: seeded random Direct throttling rule through api.Entry (%d), '
                     'MemoryAdaptive+Throttling rule with the memory usage moved between requests through api.Entry (%d), DoCheck calls with '
                     'per-call thresholds (%d); non-trivial = distinct scenario with >= 2 callers moving / >= 2 requests'
                     % (ntlc, ngate - ntlc, sum(1 for x in scns[nseq:] if x['mode'] == 'gate'), nseq - ngate,
                        sum(1 for x in scns if x.get('strategy') == 'mem'), sum(1 for x in scns if x['mode'] == 'chk')))
    c.sample(scns[0])
    c.sample(scns[ngate - 1])
    c.sample(scns[nseq - 1])
    c.sample(scns[nseq])
    c.sample([x for x in scns if x.get('strategy') == 'mem'][0])
    c.sample(scns[-1])
    c.assumptions += ['spacing entitlement iv = ceil(batch * interval / threshold of that request) computed exactly (integers) by the trace spec; the real code may round '
                      'one ns up (float): NoSpuriousReject is judged with 1 ns slack in sequential traces',
                      'relative virtual times stay below 2^31 ns in sequential traces (TLC integers)',
                      'thresholds so small that the spacing overflows int64 are outside the modelled domain',
                      'MemoryAdaptive rules: the effective threshold is ThrottleProp!MemThr(rule, published memory usage); water marks are a power '
                      'of two apart so that the interpolation of the real code is exact in float64; WarmUp + Throttling is not driven end to end '
                      '(its moving threshold is covered by the per-call thresholds of the chk / gate scenarios)',
                      'gate scenarios keep statInterval / threshold a whole number of ticks for every threshold of the scenario',
                      'exhaustive interleavings only for the bounded configurations listed in tlc_runs']


main('C10', check)
