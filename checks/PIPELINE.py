"""PIPELINE - the metric pipeline end to end (growth item 4 of DESIGN section 4).

Not one of the twenty properties: Entry/Exit -> sliding-window statistics -> aggregator task -> metric log writer -> files ->
searcher, judged against spec/MetricPipelineOps.tla (built on WindowRef): every second with traffic that an aggregation covered
is found in the log exactly once with the true per-second totals.  It backs C01 (accounting), C08 (per-second items) and C17
(log searchable) in combination; `bin/check C17 thorough` runs it as an extra stage.

S1  TLC checks spec/MetricPipeline.tla (aggregator protocol over one resource, ghost per-second truth): LoggedOnce, LoggedTruth,
    LoggedAll as long as two aggregations are less than an array length apart.
S2  scenarios: TLC simulations of that model + seeded random histories (two resources, one always blocked; batch counts; errors;
    entries held across seconds; aggregation gaps up to 8 s).
S3  harness/cmd/c22: the real aggregator task driven by a manual ticker (util.SetTickerCreator), virtual clock, real files.
S4  spec/MetricPipeline_Trace.tla judges what the searcher finally returns.
"""
import json, os, shutil
from vlib import main, write_ndjson, read_ndjson, MachineryError

CFG = """SPECIFICATION Spec
CONSTANTS
  Steps = {500, 1000, 4500}
  Batches = {1, 2}
  MaxOps = %(maxops)d
  MaxT = %(maxt)d
  MaxGap = 9000
VIEW view
%(inv)s
CHECK_DEADLOCK FALSE
%(extra)s"""
INV = 'INVARIANTS LoggedOnce LoggedTruth LoggedAll'


def maximal(hs):
    keys = sorted(json.dumps(x, sort_keys=True)[:-1] for x in hs)
    out = []
    for i, k in enumerate(keys):
        if i + 1 < len(keys) and keys[i + 1].startswith(k) and (keys[i + 1] == k or keys[i + 1][len(k)] == ','):
            continue
        out.append(json.loads(k + ']'))
    return out


def from_hist(hist, tr):
    s = [dict(op='new', tr=tr, t0=250)]
    for o in hist:
        o = dict(o)
        if o['op'] == 'enter' and o['id'] == 0:
            o['id'] = 9000 + len(s)
        s.append(o)
    return s + [dict(op='tick', d=1000), dict(op='agg'), dict(op='final')]


def random_scenario(rng, tr):
    s = [dict(op='new', tr=tr, t0=rng.choice([0, 1, 250, 499, 500, 999]))]
    live, nid, since = [], 0, 0
    for _ in range(rng.randint(6, 30)):
        x = rng.random()
        if x < 0.4:
            nid += 1
            res = 'a' if rng.random() < 0.75 else 'b'
            s.append(dict(op='enter', id=nid, res=res, b=rng.choice([1, 1, 2, 3])))
            if res == 'a':
                live.append(nid)
        elif x < 0.6 and live:
            s.append(dict(op='exit', id=live.pop(rng.randrange(len(live))), err=rng.random() < 0.4))
        elif x < 0.85:
            d = rng.choice([1, 100, 250, 499, 500, 501, 1000, 1500, 3000])
            if since + d > 8000:
                s.append(dict(op='agg'))
                since = 0
            s.append(dict(op='tick', d=d))
            since += d
        else:
            s.append(dict(op='agg'))
            since = 0
    for i in live:
        s.append(dict(op='exit', id=i, err=False))
    return s + [dict(op='tick', d=1000), dict(op='agg'), dict(op='final')]


def run_and_validate(c, drv, scns, tag):
    sp = os.path.join(c.scratch, tag + '.scn.ndjson')
    tp = os.path.join(c.scratch, tag + '.trace.ndjson')
    logdir = os.path.join(c.scratch, tag + '.logs')
    os.makedirs(logdir)
    write_ndjson(sp, [o for s in scns for o in s])
    try:
        c.run([drv, sp, tp, logdir], timeout=1500)
    finally:
        shutil.rmtree(logdir, ignore_errors=True)
    lines = open(tp).read().splitlines()
    mism, consumed, r = c.validate('MetricPipeline_Trace', tp, len(lines))
    if consumed != len(lines):
        raise MachineryError('%s: trace validation consumed %d of %d lines\n%s' % (tag, consumed, len(lines), r.out[-1500:]))
    c.cov['traces_validated_against_impl'] += len(scns)
    c.cov['evaluations'] += len(lines)
    c.log('S3/S4 %s: %d scenarios, %d events validated in %.0fs, %d mismatching traces' % (tag, len(scns), len(lines), r.wall, len(mism)))
    return [(tr, ln, exp + '  OBSERVED: ' + lines[ln - 1][:500]) for tr, ln, exp in mism], tp


def handle(c, drv, scns, mism, tag):
    by = {s[0]['tr']: s for s in scns}
    for tr, line, exp in mism:
        if len(c.violations) >= 5:
            break
        s = by[tr]
        rp = c.save_replay('%s-tr%d.ndjson' % (tag, tr), s)
        ok = sum(1 for i in range(2) if run_and_validate(c, drv, [s], 'confirm%d-%d' % (tr, i))[0])
        if ok < 2:
            c.inconclusive.append('mismatch of %s trace %d did not reproduce (%d/2)' % (tag, tr, ok))
            continue
        c.violation('what the metric searcher returns differs from the per-second reference (trace %d): expected %s' % (tr, exp[:700]), rp)


def binding_selftest(c, tp):
    lines = [json.loads(l) for l in open(tp)]
    out, want, n = [], set(), 0
    for e in lines:
        if e['op'] == 'new':
            n += 1
            if n > 30:
                break
        elif e['op'] == 'final' and e['items']:
            e = dict(e, items=[dict(x) for x in e['items']])
            k = c.rng.randrange(len(e['items']))
            if n % 2:
                e['items'][k]['pass'] += 1
            else:
                e['items'].append(dict(e['items'][k]))      # the same second logged twice
            want.add(n)
        out.append(e)
    cp = os.path.join(c.scratch, 'corrupt.ndjson')
    write_ndjson(cp, out)
    mism, consumed, r = c.validate('MetricPipeline_Trace', cp, len(out))
    trs, k = {}, 0
    for e in out:
        if e['op'] == 'new':
            k += 1
            trs[e['tr']] = k
    got = {trs[m[0]] for m in mism}
    if got != want or not want:
        raise MachineryError('binding self-test failed: corrupted %s, rejected %s' % (sorted(want), sorted(got)))
    c.cov['binding_selftest'] = '%d corrupted traces (one total changed / one second duplicated), all rejected' % len(want)
    c.log('binding self-test: %d corrupted traces, all rejected' % len(want))


def check(c, tier, replay):
    drv = c.build('c22')
    if replay:
        s = read_ndjson(replay)
        mism, _ = run_and_validate(c, drv, [s], 'replay')
        if mism:
            c.violation('replayed scenario differs from the reference: %s' % mism[0][2][:500], replay)
        c.cov['states'] = c.cov['transitions'] = 1
        c.sample(s[:6])
        return
    thorough = tier == 'thorough'
    r = c.model_check('MetricPipeline', cfg_text=CFG % dict(maxops=2, maxt=6500 if not thorough else 8500, inv=INV, extra=''), workers=8, timeout=3000, heap='14g')
    if not r.completed:
        c.inconclusive.append('MetricPipeline.tla: %s violated' % r.violated)
    c.cov['exhaustive'] = True
    scns, tr = [], 0
    r = c.tlc('MetricPipeline_Gen', cfg_text=CFG % dict(maxops=6, maxt=14000, inv='', extra='ACTION_CONSTRAINT Emit\n'), workers=1, timeout=900, count=False,
              args=['-simulate', 'num=%d' % (60 if not thorough else 800), '-depth', '22', '-seed', str(c.seed)])
    for h in maximal(r.json_prints()):
        tr += 1
        scns.append(from_hist(h, tr))
    nsim = len(scns)
    for _ in range(250 if not thorough else 4000):
        tr += 1
        scns.append(random_scenario(c.rng, tr))
    c.log('S2: %d TLC simulations, %d seeded random histories' % (nsim, len(scns) - nsim))
    first = True
    for i in range(0, len(scns), 400):
        part = scns[i:i + 400]
        mism, tp = run_and_validate(c, drv, part, 'pipe%d' % i)
        c.cov['conformance_mismatches'] += len(mism)
        handle(c, drv, part, mism, 'pipe')
        if first and not c.violations:
            binding_selftest(c, tp)
            first = False
    c.cov['distinct_nontrivial'] = len({json.dumps(s[1:], sort_keys=True) for s in scns if sum(1 for o in s if o['op'] == 'agg') >= 2})
    c.cov['rule'] = 'non-trivial = distinct scenario with at least two aggregations'
    c.sample(scns[0][:10])
    c.sample(scns[-1][:12])
    c.assumptions += ['aggregations are at most 8 s apart (the array keeps 10 s); one process per batch: the aggregator task can be started once per process',
                      'the writer task is asynchronous: the final search polls until its answer has been stable for 60 ms (cap 5 s)']


main('PIPELINE', check)
