"""C08 - sliding-window statistics equal the aligned-bucket reference for any history.

S1  TLC checks Window.tla (circular array vs. reference) exhaustively for several small geometries.
S2  scenarios: (a) one per transition of a small bounded instance of the same spec (Window_Gen),
    (b) TLC random simulation of a larger instance, (c) seeded random histories over production
    geometries (20 x 500 ms parent, the stock views) through stat.BaseStatNode and over odd geometries
    through the leap array directly, with idle gaps longer than the array, reads exactly on bucket /
    cycle boundaries and time stamps near zero.
S3  harness/cmd/c08 replays them on the real code and records every statistic read back after every step.
S4  Window_Trace.tla (TLC) decides: each recorded read must equal the reference read of WindowRef.tla.
"""
import json, os, sys
import vlib
from vlib import main, write_ndjson, read_ndjson, MachineryError

KINDS = ["pass", "block", "complete", "error", "rt"]


def mc_cfg(pn, pbl, maxops, kinds='{"pass", "rt"}', extra=''):
    return """SPECIFICATION Spec
CONSTANTS
  PN = %d
  PBL = %d
  T0Set <- MCT0
  Steps <- MCSteps
  Kinds = %s
  Amounts = {1, 2}
  Concs = {2}
  MaxOps = %d
  MaxT <- MCMaxT
VIEW view
INVARIANTS TypeOK ArrayOK ViewOK MaxBOK PrevOK CondOK
CHECK_DEADLOCK FALSE
%s""" % (pn, pbl, kinds, maxops, extra)


def accepted_views(pn, pbl):
    P = pn * pbl
    out = []
    for vn in range(1, pn + 1):
        for m in range(1, pn + 1):
            vi = vn * m * pbl
            if vi <= P and P % vi == 0:
                out.append([vn, vi])
    return out


def probe_views(pn, pbl):
    """(vn, vi) pairs for 'newview' probes: valid, off-grid, longer than the parent, zero"""
    P = pn * pbl
    c = [[1, pbl], [1, P], [pn, P], [2, pbl], [1, pbl + 1], [1, 2 * P], [2 * pn, 2 * P], [3, P], [1, P // 2 if P > 1 else 1],
         [0, P], [1, 0], [2, 3 * pbl]]
    return c


def decorate(hist, tr, pn, pbl, unit, rng, base=False):
    """turn a TLC history (ops in ticks) into a driver scenario: adds geometry, views, probes, cond reads"""
    P = pn * pbl
    out = []
    t = 0
    for o in hist:
        o = dict(o)
        if o['op'] == 'new':
            t = o['t']
            o.update(tr=tr, mode='array', pn=pn, pbl=pbl, unit=unit, views=accepted_views(pn, pbl), base=base)
            out.append(o)
            for vn, vi in probe_views(pn, pbl):
                out.append(dict(op='newview', vn=vn, vi=vi))
            continue
        out.append(o)
        if o['op'] == 'tick':
            t += o['d']
        cur = t - t % pbl
        out.append(dict(op='cond', lo=0, hi=10 ** 6))
        if rng.random() < 0.5:
            out.append(dict(op='cond', lo=max(0, cur - P), hi=cur))
    return out


ALT_CFG = '2,1000,100,10000'      # a finer global statistic: 100 buckets of 100 ms under the default 2 x 1000 ms view


def random_scenarios(c, n, first_tr, node, alt=False):
    rng = c.rng
    scns = []
    for i in range(n):
        tr = first_tr + i
        if node:
            pn, pbl = (20, 500) if not alt else (100, 100)
            stock = [[2, 1000], [1, 1000], [4, 2000], [10, 5000], [20, 10000], [1, 500], [2, 2000], [5, 5000], [1, 10000], [2, 10000]]
            if alt:
                stock = [[2, 1000], [1, 1000], [10, 1000], [4, 2000], [5, 500], [20, 10000], [100, 10000], [1, 100], [2, 200], [1, 10000]]
            rng.shuffle(stock)
            views = stock[:rng.randint(1, 5)]
            if alt:
                views = [[2, 1000]] + [v for v in views if v != [2, 1000]]      # the node's own metric is the configured default view
            s = [dict(op='new', tr=tr, mode='node', pn=pn, pbl=pbl, unit=1, t=rng.choice([1, 499, 500, 777, 1000, 12345]),
                      views=views, base=True, **({'cfg': ALT_CFG} if alt else {}))]
        else:
            pn = rng.choice([1, 2, 3, 4, 5, 6, 8])
            pbl = rng.choice([1, 3, 100, 200, 250, 500, 1000])
            views = accepted_views(pn, pbl)
            rng.shuffle(views)
            views = views[:4]
            t0 = rng.choice([1, 2, pbl, pbl + 1, pn * pbl, pn * pbl + 1, 7 * pbl - 1, rng.randint(1, 20 * pbl)])
            s = [dict(op='new', tr=tr, mode='array', pn=pn, pbl=pbl, unit=1, t=t0, views=views, base=rng.random() < 0.3)]
            for vn, vi in probe_views(pn, pbl):
                s.append(dict(op='newview', vn=vn, vi=vi))
        P = pn * pbl
        t = s[0]['t']
        for _ in range(rng.randint(10, 40)):
            x = rng.random()
            if x < 0.45:
                k = rng.choice(KINDS)
                s.append(dict(op='add', k=k, n=rng.choice([0, 1, 1, 2, 3, 7, 50])))
            elif x < 0.55:
                if node and rng.random() < 0.6:
                    s.append(dict(op='gauge', d=rng.choice([1, 1, 1, -1, -1])))      # IncreaseConcurrency / DecreaseConcurrency of the node
                else:
                    s.append(dict(op='conc', c=rng.choice([1, 2, 3, 9])))
            elif x < 0.62:
                s.append(dict(op='readarr'))
            elif x < 0.70:
                cur = t - t % pbl
                lo = rng.choice([0, max(0, cur - P), max(0, cur - pbl), cur, max(0, cur - 1000)])
                s.append(dict(op='cond', lo=lo, hi=rng.choice([cur, cur + pbl, 10 ** 9, lo + 1000])))
            else:
                to_next = pbl - t % pbl
                d = rng.choice([0, 1, to_next - 1, to_next, to_next + 1, pbl, pbl - 1, P - 1, P, P + 1, P - pbl, 2 * P, 3 * P + 1,
                                rng.randint(0, 2 * P)])
                d = max(0, d)
                s.append(dict(op='tick', d=d))
                t += d
        scns.append(s)
    return scns


def split_traces(lines):
    """group scenario / trace lines by their 'new' record -> {tr: [lines]}"""
    out, cur = {}, None
    for l in lines:
        if l.get('op') == 'new':
            cur = l['tr']
            out[cur] = []
        out[cur].append(l)
    return out


def run_and_validate(c, drv, scns, tag):
    """scns: list of scenarios (each a list of op dicts, first is 'new').  returns list of (tr, line, expected)"""
    sp = os.path.join(c.scratch, tag + '.scn.ndjson')
    tp = os.path.join(c.scratch, tag + '.trace.ndjson')
    write_ndjson(sp, [o for s in scns for o in s])
    env = vlib.goenv()
    cfgs = {s[0].get('cfg', '') for s in scns}
    if len(cfgs) == 1 and list(cfgs)[0]:
        env['VERIF_STAT_CFG'] = list(cfgs)[0]       # non-default geometry of the global statistic (whole process)
    elif len(cfgs) > 1:
        raise MachineryError('scenarios of one driver run must share the statistic configuration')
    c.run([drv, sp, tp], timeout=600, env=env)
    nlines = sum(1 for _ in open(tp))
    mism, consumed, r = c.validate('Window_Trace', tp, nlines)
    if consumed != nlines:
        raise MachineryError('%s: trace validation consumed %d of %d lines (malformed trace?)\n%s' % (tag, consumed, nlines, r.out[-1500:]))
    c.cov['traces_validated_against_impl'] += len(scns)
    c.cov['evaluations'] += nlines
    c.log('S3/S4 %s: %d scenarios, %d events validated in %.0fs, %d mismatching traces' % (tag, len(scns), nlines, r.wall, len(mism)))
    if mism:
        lines = open(tp).read().splitlines()
        mism = [(tr, ln, exp + '  OBSERVED: ' + lines[ln - 1][:600]) for tr, ln, exp in mism]
    return mism, tp


def binding_selftest(c, tp):
    """corrupt one recorded read in each of the first traces of a good trace file: every one must be rejected"""
    lines = [json.loads(l) for l in open(tp)]
    out, n, want = [], 0, set()
    for e in lines:
        if e['op'] == 'new':
            n += 1
            if n > 40:
                break
            done = False
        elif not done and e.get('obs') and e['op'] in ('add', 'tick', 'conc'):
            o = e['obs'][c.rng.randrange(len(e['obs']))]
            f = c.rng.choice(['sum', 'qps', 'maxb'] if 'maxb' in o else ['sum', 'qps'])
            k = c.rng.choice(KINDS)
            o[f][k] += 1
            done = True
            want.add(n)
        out.append(e)
    cp = os.path.join(c.scratch, 'corrupt.ndjson')
    write_ndjson(cp, out)
    mism, consumed, r = c.validate('Window_Trace', cp, len(out))
    trs = {}
    k = 0
    for e in out:
        if e['op'] == 'new':
            k += 1
            trs[e['tr']] = k
    got = {trs[m[0]] for m in mism}
    if got != want:
        raise MachineryError('binding self-test failed: corrupted traces %s, rejected %s' % (sorted(want), sorted(got)))
    c.cov['binding_selftest'] = '%d corrupted traces, all rejected' % len(want)
    c.log('binding self-test: %d corrupted traces, all rejected by Window_Trace' % len(want))


def nontrivial(s):
    """a scenario is non-trivial if it writes, then crosses a bucket boundary, then is read again"""
    wrote = False
    for o in s:
        if o['op'] in ('add', 'conc', 'gauge'):
            wrote = True
        if o['op'] == 'tick' and wrote and o['d'] > 0:
            return True
    return False


def classify(c, scn):
    """known-finding key for a confirmed mismatch, or None"""
    return None


def handle_mismatches(c, drv, scns, mism, tag):
    by_tr = {s[0]['tr']: s for s in scns}
    for tr, line, exp in mism[:12]:
        s = by_tr[tr]
        rp = c.save_replay('%s-tr%d.ndjson' % (tag, tr), s)
        # confirm twice from the replay file in fresh processes
        ok = 0
        for i in range(2):
            m2, _ = run_and_validate(c, drv, [s], 'confirm%d' % i)
            ok += 1 if m2 else 0
        if ok < 2:
            c.inconclusive.append('mismatch of %s trace %d did not reproduce (%d/2)' % (tag, tr, ok))
            continue
        key = classify(c, s)
        what = 'statistic read differs from the aligned-window reference at line %d of trace %d; expected reads %s' % (line, tr, exp[:400])
        if key and c.is_known(key):
            c.known(key, c.kf[key]['description'])
        else:
            c.violation(what, rp)


def check(c, tier, replay):
    drv = c.build('c08')
    if replay:
        s = read_ndjson(replay)
        mism, _ = run_and_validate(c, drv, [s], 'replay')
        if mism:
            c.violation('replayed scenario mismatches the reference: %s' % (mism[0][2][:400]), replay)
        c.cov['states'] = c.cov['transitions'] = 1
        c.sample(s[:6])
        return
    thorough = tier == 'thorough'
    # S1 ---------------------------------------------------------------------------------
    geos = [(1, 2, 3), (2, 2, 3), (3, 1, 3)] if not thorough else [(1, 2, 4), (1, 3, 4), (2, 1, 4), (2, 2, 4), (2, 3, 3), (3, 1, 3), (3, 2, 3), (4, 1, 3)]
    for pn, pbl, mo in geos:
        r = c.model_check('Window_MC', cfg_text=mc_cfg(pn, pbl, mo), workers=8, timeout=1500)
        if not r.completed:
            # a design-level counterexample is a lead, not a verdict (DESIGN section 6)
            c.inconclusive.append('Window.tla: %s violated for geometry PN=%d PBL=%d - the spec no longer describes a correct design' % (r.violated, pn, pbl))
    c.cov['exhaustive'] = True
    # S2 ---------------------------------------------------------------------------------
    scns = []
    tr = 0
    gen_geos = [(2, 2, 2), (1, 3, 2), (3, 1, 2)] if not thorough else [(2, 2, 3), (1, 3, 3), (3, 1, 3), (3, 2, 2), (4, 1, 2)]
    for pn, pbl, mo in gen_geos:
        cfg = mc_cfg(pn, pbl, mo, kinds='{"pass", "rt"}', extra='ACTION_CONSTRAINT Emit\n').replace('INVARIANTS TypeOK ArrayOK ViewOK MaxBOK PrevOK CondOK', '')
        r = c.tlc('Window_Gen', cfg_text=cfg, workers=4, timeout=900, count=False)
        if r.error:
            raise MachineryError('scenario generation failed: %s' % r.error)
        hs = r.json_prints()
        keep = maximal(hs)
        cap = 2500 if not thorough else 12000
        if len(keep) > cap:     # seeded sample of the transition cover
            keep = c.rng.sample(keep, cap)
        unit = {0: 1, 1: 250, 2: 500}[len(scns) % 3]
        for hhist in keep:
            tr += 1
            scns.append(decorate(hhist, tr, pn, pbl, c.rng.choice([1, 100, 250, 500]), c.rng))
        c.log('S2 transition cover PN=%d PBL=%d: %d transitions -> %d maximal scenarios' % (pn, pbl, len(hs), len(keep)))
    cover_n = len(scns)
    # TLC simulation of a larger instance
    for pn, pbl in ([(4, 2)] if not thorough else [(4, 2), (5, 3), (6, 1)]):
        cfg = mc_cfg(pn, pbl, 10, kinds='{"pass", "complete", "rt"}', extra='ACTION_CONSTRAINT Emit\n').replace('INVARIANTS TypeOK ArrayOK ViewOK MaxBOK PrevOK CondOK', '')
        num = 150 if not thorough else 1500
        r = c.tlc('Window_Gen', cfg_text=cfg, workers=1, timeout=900, count=False,
                  args=['-simulate', 'num=%d' % num, '-depth', '16', '-seed', str(c.seed)])
        keep = maximal(r.json_prints())
        for hhist in keep:
            tr += 1
            scns.append(decorate(hhist, tr, pn, pbl, c.rng.choice([1, 100, 500]), c.rng, base=c.rng.random() < 0.3))
        c.log('S2 TLC simulation PN=%d PBL=%d: %d behaviours' % (pn, pbl, len(keep)))
    nrand = 300 if not thorough else 4000
    rs = random_scenarios(c, nrand, tr + 1, node=True)
    tr += nrand
    rs2 = random_scenarios(c, nrand, tr + 1, node=False)
    tr += nrand
    nalt = 120 if not thorough else 1500      # the resource node over a finer global statistic (non-default configuration)
    rs3 = random_scenarios(c, nalt, tr + 1, node=True, alt=True)
    tr += nalt
    # directed: a peak, the gauge drops, a second peak not above the first in a LATER bucket, then the window slides past the first
    for t0 in (1, 1000, 1250):
        for d1 in (100, 200, 300, 400):
            for d2 in (600, 700, 800, 900):
                tr += 1
                rs3.append([dict(op='new', tr=tr, mode='node', pn=100, pbl=100, unit=1, t=t0, views=[[2, 1000], [10, 1000], [1, 1000]], base=True, cfg=ALT_CFG),
                            dict(op='gauge', d=1), dict(op='gauge', d=1), dict(op='gauge', d=-1), dict(op='tick', d=d1),
                            dict(op='gauge', d=1), dict(op='tick', d=d2), dict(op='tick', d=100), dict(op='tick', d=100), dict(op='gauge', d=-1),
                            dict(op='tick', d=1000), dict(op='gauge', d=1)])
    # S3 + S4 ----------------------------------------------------------------------------
    for tag, group in (('tlc', scns), ('node', rs), ('array', rs2), ('nodealt', rs3)):
        for i in range(0, len(group), 4000):
            part = group[i:i + 4000]
            mism, tp = run_and_validate(c, drv, part, '%s%d' % (tag, i))
            if i == 0 and not mism:
                binding_selftest(c, tp)
            c.cov['conformance_mismatches'] += len(mism)
            handle_mismatches(c, drv, part, mism, tag)
    allscn = scns + rs + rs2
    c.cov['distinct_nontrivial'] = len({json.dumps(s[1:], sort_keys=True) for s in allscn if nontrivial(s)})
    c.cov['rule'] = ('scenarios = one per transition of the bounded Window spec (%d) + TLC random simulation + seeded random histories '
                     'over production and odd geometries; non-trivial = distinct operation sequence in which a write is followed by a clock '
                     'advance and further reads (so window expiry/retention is actually exercised)' % cover_n)
    c.sample(scns[len(scns) // 2][:8])
    c.sample(rs[0][:8])
    c.sample(rs2[0][:10])
    c.assumptions += ['time is non-decreasing and > 0 (documented precondition of the window)',
                      'float QPS values are compared after scaling by the interval and rounding to the nearest integer',
                      'TLC model checking is exhaustive only for the small geometries listed in tlc_runs']


def maximal(hs):
    """drop histories that are proper prefixes of another history"""
    keys = sorted(json.dumps(x, sort_keys=True)[:-1] for x in hs)   # strip closing ']' so that prefixes sort adjacent
    out = []
    for i, k in enumerate(keys):
        if i + 1 < len(keys) and keys[i + 1].startswith(k) and (keys[i + 1] == k or keys[i + 1][len(k)] == ','):
            continue
        out.append(json.loads(k + ']'))
    return out


main('C08', check)
