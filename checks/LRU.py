"""LRU - the sequential meaning of the bounded LRU cache under the hot-parameter modules (growth of the specification).

Not one of the twenty properties: C05 / C06 keep their per-value state in core/hotspot/cache (LRU behind LruCacheMap) and C05 is
stated "while the configured parameter capacity is not exceeded" - that rests on what the cache does, which spec/Lru.tla now
says: which calls refresh recency, what each call returns, that an insertion beyond capacity evicts exactly the oldest entry
with one callback, Resize, Purge, Keys() order.  `bin/check C05 thorough` runs this check as an extra stage.

S1  TLC checks spec/Lru.tla exhaustively (4 keys, 2 values, capacities 1..3): SizeBound, KeysDistinct, NoSpuriousEviction,
    OldestFirst, AbsentMeansAbsent, AddStores, KeysOrder, Accounted, ReadsValue, ContainsRight, ResizeExact; every spec-level
    mutant (MUTANTS) must be REJECTED; the named defect action ResizeNonPositive must be rejected too (it is a defect).
S2  scenarios: one per transition of a smaller instance (3 keys, 2 values, capacities 1..2), TLC simulations, seeded random long
    histories (up to 10 keys, capacities 1..8, Resize / Purge included), both for cache.LRU and for LruCacheMap; constructor
    with a non-positive size; free-running concurrent phases on LruCacheMap.
S3  harness/cmd/c23 (public API of package cache) records return value, Keys(), Len() and the callbacks after EVERY call.
S4  spec/Lru_Trace.tla judges all of it (total mode); concurrent phases are judged at quiescence by QuiescentOK.
S5  binding self-test (one corrupted value in each of N good traces: all N must be rejected), verdict, evidence.
"""
import json, os, shutil, subprocess, time
from concurrent.futures import ThreadPoolExecutor
from vlib import main, write_ndjson, read_ndjson, MachineryError, TLCResult, SPEC, TLA_CP

CFG = """SPECIFICATION MCSpec
CONSTANTS
  Keys <- %(keys)s
  Vals = {1, 2}
  Caps = %(caps)s
  NonPos <- %(nonpos)s
  Mutant = "%(mutant)s"
VIEW %(view)s
%(props)s
CHECK_DEADLOCK FALSE
%(extra)s"""
PROPS = ('INVARIANTS TypeOK SizeBound KeysDistinct\nPROPERTIES NoSpuriousEviction OldestFirst AbsentMeansAbsent AddStores KeysOrder '
         'Accounted ReadsValue ContainsRight ResizeExact')
# spec-level mutants: name -> what it gets wrong
MUTANTS = dict(peekRefreshes='Peek refreshes recency', absentOverwrites='AddIfAbsent overwrites the value of an existing key',
               evictNewest='insertion beyond capacity evicts the newest entry', getNoRefresh='Get does not refresh recency',
               addNoRefresh='Add on an existing key does not refresh recency', removeSilent='Remove makes no callback',
               resizeOffByOne='Resize evicts one entry too few')
MAP_OPS = {'add', 'addabs', 'get', 'contains', 'remove', 'keys', 'len', 'purge'}
LRU_OPS = MAP_OPS | {'peek', 'removeoldest', 'getoldest', 'resize'}


def cfg(keys='MCKeys', caps='{1, 2, 3}', nonpos='None', mutant='none', view='view', props=PROPS, extra=''):
    return CFG % dict(keys=keys, caps=caps, nonpos=nonpos, mutant=mutant, view=view, props=props, extra=extra)


def tlc_many(c, jobs):
    """several small TLC runs side by side (variant of Check.tlc: own directory per job, only the Lru modules copied).
    jobs = [(name, cfg_text, extra_args)]; returns {name: TLCResult}; every run is listed in the evidence"""
    def one(job):
        name, text, args = job
        d = os.path.join(c.scratch, 'lrutlc-' + name)
        os.makedirs(d)
        for f in os.listdir(SPEC):
            if f.startswith('Lru') and f.endswith('.tla'):
                shutil.copy(os.path.join(SPEC, f), d)
        open(os.path.join(d, 'Lru_MC.cfg'), 'w').write(text)
        cmd = ['java', '-XX:+UseParallelGC', '-Xmx2g', '-Xss64m', '-cp', TLA_CP, 'tlc2.TLC', '-workers', '2' if '-simulate' not in args else '1',
               '-metadir', os.path.join(d, 'md'), '-noGenerateSpecTE'] + list(args) + ['Lru_MC']
        t = time.time()
        try:
            p = subprocess.run(cmd, cwd=d, stdout=subprocess.PIPE, stderr=subprocess.STDOUT, text=True, timeout=600)
            out, rc = p.stdout, p.returncode
        except subprocess.TimeoutExpired as e:
            out, rc = (e.stdout.decode() if isinstance(e.stdout, bytes) else (e.stdout or '')), 124
            subprocess.run(['pkill', '-f', d], stdout=subprocess.DEVNULL, stderr=subprocess.DEVNULL)
        r = TLCResult(out, rc, time.time() - t)
        if rc == 124:
            r.error = 'timeout'
        shutil.rmtree(os.path.join(d, 'md'), ignore_errors=True)
        return name, r
    with ThreadPoolExecutor(max_workers=6) as ex:
        res = dict(ex.map(one, jobs))
    for name, text, args in jobs:
        r = res[name]
        c.cov['tlc_runs'].append(dict(module='Lru_MC', cfg=name, generated=r.generated, distinct=r.distinct, depth=r.depth, wall_s=round(r.wall, 1),
                                      args=' '.join(args), result='ok' if r.completed else (r.violated or ('deadlock' if r.deadlock else r.error))))
    return res


def maximal(hs):
    keys = sorted(json.dumps(x, sort_keys=True)[:-1] for x in hs)
    out = []
    for i, k in enumerate(keys):
        if i + 1 < len(keys) and keys[i + 1].startswith(k) and (keys[i + 1] == k or keys[i + 1][len(k)] == ','):
            continue
        out.append(json.loads(k + ']'))
    return out


def from_hist(hist, tr, kind):
    s = []
    for o in hist:
        o = dict(o)
        if o['op'] == 'new':
            o.update(tr=tr, kind=kind)
        s.append(o)
    return s


def op(name, k='', v=-1, n=0):
    return dict(op=name, k=k, v=v, n=n)


def random_scenario(rng, tr):
    kind = 'lru' if rng.random() < 0.65 else 'map'
    cap = rng.randint(1, 8)
    nk = min(10, max(2, rng.choice([cap, cap + 1, cap + 1, cap + 2, 10])))
    keys = ['k%d' % i for i in range(nk)]
    s = [dict(op='new', tr=tr, cap=cap, kind=kind)]
    for _ in range(rng.randint(20, 150)):
        x = rng.random()
        k, v = rng.choice(keys), rng.randint(0, 50)
        if x < 0.22:
            s.append(op('add', k, v))
        elif x < 0.44:
            s.append(op('addabs', k, v))
        elif x < 0.62:
            s.append(op('get', k))
        elif x < 0.70:
            s.append(op('contains', k))
        elif x < 0.79:
            s.append(op('remove', k))
        elif x < 0.81:
            s.append(op('keys'))
        elif x < 0.83:
            s.append(op('len'))
        elif x < 0.845:
            s.append(op('purge'))
        elif kind == 'map':
            s.append(op('get', k))
        elif x < 0.91:
            s.append(op('peek', k))
        elif x < 0.94:
            s.append(op('removeoldest'))
        elif x < 0.96:
            s.append(op('getoldest'))
        else:
            s.append(op('resize', n=rng.randint(1, 9)))
    return s


def conc_scenario(rng, tr, shape=None):
    shape = shape or rng.choice(['one-generation', 'one-generation', 'removes', 'evictions'])
    nkeys = rng.randint(1, 4)
    if shape == 'evictions':
        nkeys = rng.randint(2, 4)
        cap = rng.randint(1, nkeys - 1)
    else:
        cap = nkeys + rng.randint(0, 2)
    return [dict(op='conc', tr=tr, cap=cap, nkeys=nkeys, G=rng.choice([2, 4, 8, 8]), nops=rng.choice([4, 20, 60]),
                 removes=shape != 'one-generation', seed=rng.randint(1, 10 ** 6), shape=shape)]


def run_and_validate(c, drv, scns, tag):
    sp = os.path.join(c.scratch, tag + '.scn.ndjson')
    tp = os.path.join(c.scratch, tag + '.trace.ndjson')
    write_ndjson(sp, [o for s in scns for o in s])
    c.run([drv, sp, tp], timeout=600)
    lines = open(tp).read().splitlines()
    want = sum(1 for s in scns for o in s) - sum(len(s) - 1 for s in scns if s[0]['op'] == 'new' and s[0]['cap'] <= 0)
    if len(lines) != want:
        raise MachineryError('%s: the driver recorded %d events for %d calls' % (tag, len(lines), want))
    mism, consumed, r = c.validate('Lru_Trace', tp, len(lines))
    if consumed != len(lines):
        raise MachineryError('%s: trace validation consumed %d of %d lines\n%s' % (tag, consumed, len(lines), r.out[-1500:]))
    c.cov['traces_validated_against_impl'] += len(scns)
    c.cov['evaluations'] += len(lines)
    c.log('S3/S4 %s: %d scenarios, %d calls judged in %.0fs, %d mismatching traces' % (tag, len(scns), len(lines), r.wall, len(mism)))
    return [(tr, ln, exp + '  OBSERVED: ' + lines[ln - 1][:400]) for tr, ln, exp in mism], tp


def handle(c, drv, scns, mism, tag):
    by = {s[0]['tr']: s for s in scns}
    for tr, line, exp in mism:
        if len(c.violations) >= 5:
            break
        s = by[tr]
        if s[0]['op'] == 'conc':
            # a free-running phase does not repeat exactly: the replay file is the same shape 300 times with other seeds;
            # confirmed = at least one of them is rejected, in each of two fresh runs
            s = [dict(s[0], tr=i + 1, seed=s[0]['seed'] + i) for i in range(300)]
            rp = c.save_replay('%s-conc-tr%d.ndjson' % (tag, tr), s)
            ok = sum(1 for i in range(2) if run_and_validate(c, drv, [[o] for o in s], 'confirm%d' % i)[0])
            what = 'concurrent phase on LruCacheMap (%s) breaks the quiescent judgement QuiescentOK: %s' % (by[tr][0].get('shape'), exp[:700])
        else:
            rp = c.save_replay('%s-tr%d.ndjson' % (tag, tr), s)
            ok = sum(1 for i in range(2) if run_and_validate(c, drv, [s], 'confirm%d' % i)[0])
            what = 'the real cache differs from spec/Lru.tla at call %d of trace %d (%s): %s' % (line, tr, s[0].get('kind'), exp[:900])
        if ok < 2:
            c.inconclusive.append('mismatch of %s trace %d did not reproduce (%d/2): %s' % (tag, tr, ok, exp[:300]))
            continue
        c.violation(what, rp)


def corrupt(rng, e):
    """change ONE recorded observable of a call so that it no longer is what the cache did"""
    e = dict(e)
    if e['op'] == 'conc':
        pk = [dict(p) for p in e['perkey']]
        i = rng.randrange(len(pk))
        f = rng.choice(['objs', 'foreign', 'len'] + (['read', 'ins'] if not e['removes'] and e['cap'] >= e['nkeys'] else []))
        if f == 'len':
            e['len'] += 1
        else:
            pk[i][f] += 1
        e['perkey'] = pk
        return e
    f = rng.choice(['found', 'rv', 'rn', 'len', 'keys', 'keys'] + (['ev', 'ev'] if e['kind_'] == 'lru' else []))
    if f == 'found':
        e['found'] = not e['found']
    elif f in ('rv', 'rn', 'len'):
        e[f] += 1
    elif f == 'keys':
        e['keys'] = list(reversed(e['keys'])) if len(e['keys']) >= 2 else e['keys'] + ['zz']
    else:
        e['ev'] = [dict(e['ev'][0], v=e['ev'][0]['v'] + 1)] + e['ev'][1:] if e['ev'] else [dict(k='zz', v=0)]
    return e


def binding_selftest(c, tp, bad, n=60):
    traces, cur = [], None
    for l in open(tp):
        e = json.loads(l)
        if e['op'] in ('new', 'conc'):
            cur = [e]
            traces.append(cur)
        else:
            cur.append(e)
    good = [t for t in traces if t[0]['tr'] not in bad and (t[0]['op'] == 'conc' or len(t) > 1)]
    conc = [t for t in good if t[0]['op'] == 'conc']
    seq = [t for t in good if t[0]['op'] != 'conc']
    pick = c.rng.sample(seq, min(n, len(seq))) + c.rng.sample(conc, min(n // 4, len(conc)))
    out, want = [], set()
    for t in pick:
        t = [dict(e) for e in t]
        if t[0]['op'] == 'conc':
            t[0] = corrupt(c.rng, t[0])
        else:
            i = c.rng.randrange(1, len(t))
            t[i] = corrupt(c.rng, dict(t[i], kind_=t[0]['kind']))
            del t[i]['kind_']
        want.add(t[0]['tr'])
        out += t
    cp = os.path.join(c.scratch, 'corrupt.ndjson')
    write_ndjson(cp, out)
    mism, consumed, r = c.validate('Lru_Trace', cp, len(out))
    got = {m[0] for m in mism}
    if got != want or consumed != len(out):
        raise MachineryError('binding self-test failed: corrupted %s, rejected %s' % (sorted(want - got)[:10], sorted(got - want)[:10]))
    c.cov['binding_selftest'] = '%d traces with one corrupted observable each (%d of them concurrent phases), all rejected' % (
        len(want), min(n // 4, len(conc)))
    c.log('binding self-test: ' + c.cov['binding_selftest'])


def measure(c, scns, tp):
    """coverage numbers from what the real cache did"""
    ops, nontriv, evict_ins, evict_resize, refresh, kinds = {}, set(), 0, 0, 0, {}
    by = {s[0]['tr']: s for s in scns}
    cur, hit, prev_keys = None, False, []
    for l in open(tp):
        e = json.loads(l)
        if e['op'] in ('new', 'conc'):
            if cur is not None and hit:
                nontriv.add(json.dumps(by[cur][1:], sort_keys=True) + str(by[cur][0]['cap']) + by[cur][0]['kind'])
            cur, hit, prev_keys = (e['tr'] if e['op'] == 'new' else None), False, []
            kinds[e.get('kind', 'conc')] = kinds.get(e.get('kind', 'conc'), 0) + 1
            continue
        ops[e['op']] = ops.get(e['op'], 0) + 1
        grew = e['op'] in ('add', 'addabs') and e['k'] not in prev_keys
        if grew and len(prev_keys) == len(e['keys']) and prev_keys:
            evict_ins += 1          # an insertion that did not grow the cache: a capacity eviction (seen through Keys(), both kinds)
            hit = True
        if e['op'] == 'resize' and e['ev']:
            evict_resize += 1
            hit = True
        if e['op'] in ('add', 'addabs', 'get') and e['k'] in prev_keys and prev_keys[-1] != e['k']:
            refresh += 1
        prev_keys = e['keys']
    if cur is not None and hit:
        nontriv.add(json.dumps(by[cur][1:], sort_keys=True) + str(by[cur][0]['cap']) + by[cur][0]['kind'])
    return ops, nontriv, evict_ins, evict_resize, refresh, kinds


DEFECT_PROBE = [
    [dict(op='new', cap=2, kind='lru'), op('add', 'k1', 1), op('add', 'k2', 2), op('resize', n=-1), op('add', 'k3', 3), op('len')],
    [dict(op='new', cap=3, kind='lru'), op('add', 'k1', 1), op('resize', n=0), op('addabs', 'k2', 2), op('get', 'k2'), op('keys')],
    [dict(op='new', cap=1, kind='lru'), op('resize', n=-3), op('add', 'k1', 1), op('resize', n=2), op('add', 'k1', 1), op('add', 'k2', 1)],
]


def check(c, tier, replay):
    drv = c.build('c23')
    if replay:
        ops = read_ndjson(replay)
        scns = []
        for o in ops:
            if o['op'] in ('new', 'conc'):
                scns.append([])
            scns[-1].append(o)
        mism, _ = run_and_validate(c, drv, scns, 'replay')
        if mism:
            c.violation('replayed scenario differs from spec/Lru.tla: %s' % mism[0][2][:700], replay)
        c.cov['states'] = c.cov['transitions'] = 1
        c.sample(scns[0][:6])
        return
    thorough = tier == 'thorough'
    # S1 ---------------------------------------------------------------------------------
    ex = ThreadPoolExecutor(max_workers=1)       # the exhaustive run goes on while the small runs (mutants, scenario generation) do
    fut = ex.submit(c.model_check, 'Lru_MC', 'Lru_MC', workers=6, timeout=600)
    nsim_want = 100 if not thorough else 3000
    jobs = [('mutant-' + m, cfg(mutant=m, keys='MCKeys3'), []) for m in sorted(MUTANTS)]
    jobs.append(('defect-ResizeNonPositive', cfg(nonpos='MCNonPos', keys='MCKeys3'), []))
    jobs.append(('emit', cfg(keys='MCKeys3', caps='{1, 2}', view='viewS', props='', extra='ACTION_CONSTRAINT Emit\n'), []))
    jobs.append(('simulate', cfg(props='', extra='ACTION_CONSTRAINT EmitEnd\n'), ['-simulate', 'num=%d' % nsim_want, '-depth', '32', '-seed', str(c.seed)]))
    res = tlc_many(c, jobs)
    r = fut.result()
    ex.shutdown()
    if not r.completed:
        c.inconclusive.append('Lru.tla: %s violated - the design model is wrong' % r.violated)
    c.cov['exhaustive'] = True
    rejected = {}
    for m in sorted(MUTANTS):
        r = res['mutant-' + m]
        if r.error:
            raise MachineryError('TLC failed on spec mutant %s: %s\n%s' % (m, r.error, r.out[-1500:]))
        if not r.violated:
            c.inconclusive.append('spec-level mutant %s (%s) is NOT rejected by TLC: the properties are too weak' % (m, MUTANTS[m]))
        rejected[m] = r.violated
    r = res['defect-ResizeNonPositive']
    if not r.violated:
        c.inconclusive.append('the named defect action ResizeNonPositive is not rejected by TLC')
    rejected['ResizeNonPositive (named defect of the real code, not a mutant)'] = r.violated
    c.cov['spec_mutants_rejected_by'] = rejected
    c.log('S1 mutants rejected: %s' % rejected)
    # S2 ---------------------------------------------------------------------------------
    scns, tr = [], 0
    r = res['emit']
    if r.error or not r.completed:
        raise MachineryError('scenario generation failed: %s\n%s' % (r.error, r.out[-1500:]))
    hs = maximal(r.json_prints())
    for h in hs:
        tr += 1
        scns.append(from_hist(h, tr, 'lru'))
        if all(o['op'] in MAP_OPS for o in h[1:]):
            tr += 1
            scns.append(from_hist(h, tr, 'map'))
    ncover = len(scns)
    r = res['simulate']
    sims = r.json_prints()          # (every candidate LAST step of every behaviour is printed: keep three per behaviour)
    if len(sims) < nsim_want:
        raise MachineryError('TLC simulation produced %d behaviours' % len(sims))
    if len(sims) > 3 * nsim_want:
        sims = c.rng.sample(sims, 3 * nsim_want)
    for h in sims:
        tr += 1
        scns.append(from_hist(h, tr, 'lru'))
    nsim = len(scns) - ncover
    nrand = 1000 if not thorough else 20000
    for _ in range(nrand):
        tr += 1
        scns.append(random_scenario(c.rng, tr))
    for cap in (0, -1, -5):
        for kind in ('lru', 'map'):
            tr += 1
            scns.append([dict(op='new', tr=tr, cap=cap, kind=kind), op('add', 'k1', 1)])
    concs = []
    for _ in range(240 if not thorough else 4000):
        tr += 1
        concs.append(conc_scenario(c.rng, tr))
    probes = []
    for p in DEFECT_PROBE:
        tr += 1
        probes.append([dict(p[0], tr=tr)] + p[1:])
    c.log('S2: %d transition-cover scenarios (%d transitions), %d TLC simulations, %d seeded random histories, %d concurrent phases' % (
        ncover, len(hs), nsim, nrand, len(concs)))
    # S3 / S4 ----------------------------------------------------------------------------
    first, nontriv, tot = True, set(), dict(ops={}, evict_ins=0, evict_resize=0, refresh=0, kinds={})
    everything = scns + concs + probes
    for i in range(0, len(everything), 4000):
        part = everything[i:i + 4000]
        mism, tp = run_and_validate(c, drv, part, 'lru%d' % i)
        c.cov['conformance_mismatches'] += len(mism)
        handle(c, drv, part, mism, 'lru')
        ops, nt, ei, er, rf, kinds = measure(c, part, tp)
        nontriv |= nt
        for k, v in ops.items():
            tot['ops'][k] = tot['ops'].get(k, 0) + v
        for k, v in kinds.items():
            tot['kinds'][k] = tot['kinds'].get(k, 0) + v
        tot['evict_ins'] += ei
        tot['evict_resize'] += er
        tot['refresh'] += rf
        if first:
            binding_selftest(c, tp, {m[0] for m in mism}, n=60 if not thorough else 300)
            first = False
        if i + 4000 >= len(everything):
            # what the named defect looks like on the real code (informational: the trace spec follows ResizeNonPositive)
            seen = []
            for l in open(tp):
                e = json.loads(l)
                if e['op'] == 'resize' and e['n'] <= 0:
                    seen.append('Resize(%d) returned %d, made %d callbacks' % (e['n'], e['rn'], len(e['ev'])))
            c.cov['named_defect_ResizeNonPositive_observed'] = seen
    c.cov['calls_by_method'] = tot['ops']
    c.cov['traces_by_kind'] = tot['kinds']
    c.cov['capacity_evictions_on_insert'] = tot['evict_ins']
    c.cov['resizes_that_evicted'] = tot['evict_resize']
    c.cov['recency_refreshes_of_a_non_newest_key'] = tot['refresh']
    c.cov['concurrent_phases'] = len(concs)
    c.cov['distinct_nontrivial'] = len(nontriv)
    c.cov['rule'] = ('scenarios = one per transition of the bounded Lru instance (%d) + TLC random simulation + seeded random long histories + '
                     'free-running concurrent phases; non-trivial = distinct sequential scenario in which the real cache evicted at least once '
                     'for capacity (insertion into a full cache, or a Resize that evicted)' % ncover)
    c.sample(scns[ncover // 2][:8])
    c.sample(scns[-10][:10])
    c.sample(concs[0])
    c.assumptions += ['keys are hashable and equal to themselves (strings here); a NaN key or an unhashable key is outside the model',
                      'values are never nil (AddIfAbsent reports "absent" by returning nil, so a stored nil cannot be told from absence)',
                      'cache.LRU is driven by one goroutine (it is documented as not thread safe); LruCacheMap is driven sequentially and, in the '
                      'concurrent phases, by 2..8 free-running goroutines judged only at quiescence',
                      'the order of the callbacks made by Purge is not specified (the code ranges over a Go map): compared as a set',
                      'Resize with a size <= 0 follows the named defect action ResizeNonPositive (see notes/LRU.md), not the evident meaning',
                      'TLC model checking is exhaustive only for the bounded instances listed in tlc_runs']


main('LRU', check)
