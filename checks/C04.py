"""C04 - an isolation rule admits a request iff in-flight entries + batch <= N (full uint32 range, any exit order).

S1  TLC checks Isolation.tla (the iff with mathematical integers carried as 16-bit limbs, first failing rule reported,
    cap, rejected never in flight, freed capacity reusable) for one / two rules, two resources and batches over the
    whole uint32 range, and AdmitPath.tla in mode "conc" (k = 2, 3 callers: in-flight <= N + k-1 over ALL
    interleavings).  Broken variants (uint32 wrap-around in the compare, a bound of k-2) must violate the invariants.
S2  scenarios: (a) one per transition of a bounded Isolation instance, (b) TLC random simulation of a larger one,
    (c) seeded random histories (entries held open, exits in random order, batches 0..3 and around 2^31 / 2^32),
    (d) every complete schedule TLC emits for AdmitPath, replayed with the goroutine gate.
S3  harness/cmd/c04 replays them on the real code (isolation.LoadRules, api.Entry(WithBatchCount) / Exit; gated
    goroutines parked at "chain.checked") and records decision, block type, triggered rule / value, CurrentConcurrency.
S4  Isolation_Trace.tla (TLC) judges every recorded observable.
Reloads: rule lists are also REPLACED / CLEARED in the middle of a history (Isolation!Reload, bounded instance SpecR in
    Isolation_MC with the rules the property demands next to the rules the design enforces: IffR / FirstRuleR / InForce /
    CapStep / ReloadKeepsInflight; mutant ClearBug), through isolation.LoadRules / LoadRulesOfResource (list, empty list) /
    ClearRulesOfResource / ClearRules, with raw lists that contain invalid rules (threshold 0, other metric type, no
    resource name), for two resources, while entries are in flight.  Isolation_Trace!TReload computes the rules in force
    from the recorded raw list (validity predicate transcribed in the spec).
"""
import json, os, sys
import vlib
from vlib import main, write_ndjson, read_ndjson, MachineryError

KEY_WRAP = 'C04/batch-overflow/uint32-wrap-admits'
M32 = 2 ** 32 - 1


def limbs(v):
    return [v >> 16, v & 0xffff]


def value(l):
    return (l[0] << 16) | l[1]


# ------------------------------------------------------------------ S1
def mc_cfg(cfgs, batches, maxreq, wrap='FALSE', check=True, extra='', rel='MCNoRel', maxrel=0, bug='FALSE', invs=None):
    """SpecR = Isolation!Spec + bounded reloads; maxrel = 0 is exactly the instance without reloads"""
    if invs is None:
        invs = ('INVARIANTS TypeOKR Iff FirstRuleReported CapR Reusable IffR FirstRuleR InForce\n'
                'PROPERTIES RejectedNeverInflight CapStep ReloadKeepsInflight')
    return """SPECIFICATION SpecR
CONSTANTS
  Res = {1, 2}
  RuleCfgs <- %s
  Batches <- %s
  MaxReq = %d
  Wrap = %s
  RelLists <- %s
  MaxRel = %d
  ClearBug = %s
VIEW viewR
%s
CHECK_DEADLOCK FALSE
%s""" % (cfgs, batches, maxreq, wrap, rel, maxrel, bug, invs if check else '', extra)


def path_cfg(k, ts, w0s, bs, invs='TypeOK Bound NoSpurious Conserved', extra=''):
    return """SPECIFICATION Spec
CONSTANTS
  K = %d
  Mode = "conc"
  Ts <- %s
  W0s = %s
  Bs = %s
%s
CHECK_DEADLOCK FALSE
%s""" % (k, ts, w0s, bs, ('INVARIANTS ' + invs) if invs else '', extra)


def model_check(c, thorough):
    for batches, maxreq in (('MCBatches', 5 if not thorough else 6), ('MCBatchesNZ', 5 if not thorough else 6)):
        r = c.model_check('Isolation_MC', cfg_text=mc_cfg('MCCfgs', batches, maxreq), workers=8, timeout=1500)
        if not r.completed:
            c.inconclusive.append('Isolation.tla: %s violated (%s) - the design model contradicts the property' % (r.violated, batches))
    # rule lists replaced / cleared in the middle of a history (two resources, invalid rules, entries in flight)
    r = c.model_check('Isolation_MC', cfg_text=mc_cfg('MCRelCfgs', 'MCRelBatches', 5 if not thorough else 6, rel='MCRelLists',
                                                      maxrel=3 if not thorough else 4), workers=8, timeout=1500)
    if not r.completed:
        c.inconclusive.append('Isolation.tla with reloads: %s violated - the design model contradicts the property' % r.violated)
    for k, bs in ((2, '{0, 1, 2, 3}'), (3, '{0, 1, 2}' if not thorough else '{0, 1, 2, 3}')):
        r = c.model_check('AdmitPath_MC', cfg_text=path_cfg(k, 'MCTsConc', '{0, 1, 2, 3}', bs), workers=8, timeout=1500)
        if not r.completed:
            c.inconclusive.append('AdmitPath.tla (conc, K=%d): %s violated' % (k, r.violated))
    c.cov['exhaustive'] = True
    caught = []
    r = c.tlc('Isolation_MC', cfg_text=mc_cfg('MCCfgs', 'MCBatches', 4, wrap='TRUE'), workers=4, timeout=600, count=False)
    if r.violated != 'Iff':
        raise MachineryError('vacuity self-test: the uint32-wrapping design was not caught by Iff (%s)' % (r.violated or r.error))
    caught.append('wrap32->Iff')
    r = c.tlc('Isolation_MC', cfg_text=mc_cfg('MCRelCfgs', 'MCRelBatches', 4, rel='MCRelLists', maxrel=2, bug='TRUE', invs='INVARIANTS IffR'),
              workers=4, timeout=600, count=False)
    if r.violated != 'IffR':
        raise MachineryError('vacuity self-test: the design "clearing a resource without valid rules uncaps the others" was not '
                             'caught by IffR (%s)' % (r.violated or r.error))
    caught.append('clear-uncaps-others->IffR')
    r = c.tlc('AdmitPath_MC', cfg_text=path_cfg(3, 'MCTsGenC', '{0, 1}', '{1, 2}', invs='BoundTooTight'), workers=4, timeout=600, count=False)
    if r.violated != 'BoundTooTight':
        raise MachineryError('vacuity self-test: the N + k-1 bound is not tight in AdmitPath (%s)' % (r.violated or r.error))
    caught.append('bound-1->BoundTooTight')
    c.cov['spec_mutants_caught'] = caught
    c.log('S1 vacuity self-test: broken designs caught: ' + ', '.join(caught))


# ------------------------------------------------------------------ S2
def maximal(hs):
    keys = sorted(json.dumps(x, sort_keys=True)[:-1] for x in hs)
    out = []
    for i, k in enumerate(keys):
        if i + 1 < len(keys) and keys[i + 1].startswith(k) and (keys[i + 1] == k or keys[i + 1][len(k)] == ','):
            continue
        out.append(json.loads(k + ']'))
    return out


def decorate(c, hist, tr):
    out = []
    for o in hist:
        o = dict(o)
        if o['op'] == 'new':
            o = dict(op='new', tr=tr, nres=2, rules=[dict(res=r['res'], N=list(r['N'])) for r in o['rules']])
        else:
            if o['op'] == 'reload':
                o['rules'] = [dict(res=r['res'], N=list(r['N']), mt=r['mt']) for r in o['rules']]
            if c.rng.random() < 0.3:
                o['dt'] = c.rng.choice([1, 250, 499, 500, 1000, 10001, 60001, 3600000])
        out.append(o)
    return out


def probe_tail(s, n=4, first=100):
    """what the rules in force are after the last push shows in the decisions: n more requests of batch 1 per resource"""
    rid = first
    for res in (1, 2):
        for _ in range(n):
            rid += 1
            s.append(dict(op='req', res=res, b=limbs(1), id=rid))
    return s


def reload_tlc_scenarios(c, thorough, tr):
    """one scenario per transition of the bounded instance WITH reloads + TLC random simulation of a larger one"""
    scns = []
    cap = 1200 if not thorough else 20000
    cfg = mc_cfg('MCGenRelCfgs', 'MCGenRelBatches', 3, check=False, extra='ACTION_CONSTRAINT Emit\n', rel='MCGenRelLists',
                 maxrel=2 if not thorough else 3)
    r = c.tlc('Isolation_MC', cfg_text=cfg, workers=4, timeout=900, count=False)
    if r.error:
        raise MachineryError('reload scenario generation failed: %s\n%s' % (r.error, r.out[-1500:]))
    hs = r.json_prints()
    keep = [x for x in maximal(hs) if any(o['op'] == 'reload' for o in x)]
    n = len(keep)
    if len(keep) > cap:
        keep = c.rng.sample(keep, cap)
    for hist in keep:
        tr += 1
        scns.append(probe_tail(decorate(c, hist, tr)))
    c.log('S2 reload transition cover: %d transitions -> %d maximal scenarios with a reload, %d kept' % (len(hs), n, len(keep)))
    num = 150 if not thorough else 2000
    cfg = mc_cfg('MCCfgs', 'MCBatches', 12, check=False, extra='ACTION_CONSTRAINT Emit\n', rel='MCRelLists', maxrel=4)
    r = c.tlc('Isolation_MC', cfg_text=cfg, workers=1, timeout=900, count=False,
              args=['-simulate', 'num=%d' % num, '-depth', '24', '-seed', str(c.seed)])
    keep = [x for x in maximal(r.json_prints()) if any(o['op'] == 'reload' for o in x)]
    if not keep:
        raise MachineryError('TLC simulation with reloads produced no behaviours\n' + r.out[-1500:])
    nsim = len(keep)
    lim = 500 if not thorough else 10000
    if len(keep) > lim:
        keep = c.rng.sample(keep, lim)
    for hist in keep:
        tr += 1
        scns.append(probe_tail(decorate(c, hist, tr), n=2))
    c.log('S2 TLC simulation with reloads: %d behaviours, %d kept' % (nsim, len(keep)))
    return scns, tr


def directed_reload_scenarios(c, tr):
    """shapes written down by hand: thresholds lowered / raised under traffic, invalid-only lists, clearing one resource
    next to another, the same list pushed twice"""
    scns = []
    R = lambda res, n, mt=0: dict(res=res, N=limbs(n), mt=mt)
    rel = lambda via, r=0, rules=(): dict(op='reload', via=via, r=r, rules=list(rules))

    def mk(rules, ops):
        nonlocal tr
        tr += 1
        s = [dict(op='new', tr=tr, nres=2, rules=[dict(res=a, N=limbs(n)) for a, n in rules])]
        rid = 0
        for o in ops:
            if isinstance(o, tuple):        # ('req', res, b) / ('exit', id)
                if o[0] == 'req':
                    rid += 1
                    s.append(dict(op='req', res=o[1], b=limbs(o[2]), id=rid))
                else:
                    s.append(dict(op='exit', id=o[1]))
            else:
                s.append(dict(o))
        scns.append(s)
    # a resource whose pushed rules are all invalid is cleared next to a resource with a valid rule
    for n in (1, 2, 3):
        for bad in (R(2, 0), R(2, 2, 1), R(2, 0, 1)):
            for first in ('all', 'res'):
                for clr in (rel('clear', 2), rel('res', 2)):
                    for pre in (0, 1):
                        ops = [('req', 1, 1)] * pre
                        if first == 'all':
                            ops.append(rel('all', 0, [R(1, n), bad]))
                        else:
                            ops += [rel('res', 2, [bad]), rel('res', 1, [R(1, n)])]
                        ops.append(clr)
                        ops += [('req', 1, 1)] * (n + 1) + [('exit', 1), ('req', 1, 1), ('req', 2, 1), ('req', 2, 5)]
                        mk([(1, 5)], ops)
    for n in (1, 2):
        # threshold lowered while entries are in flight: they keep occupying capacity
        mk([(1, 3)], [('req', 1, 1)] * 3 + [rel('res', 1, [R(1, n)]), ('req', 1, 1), ('exit', 1), ('req', 1, 1), ('exit', 2),
                                             ('req', 1, 1), ('exit', 3), ('req', 1, 1), ('req', 1, 1), ('req', 1, 1)])
        # raised
        mk([(1, n)], [('req', 1, 1)] * (n + 1) + [rel('all', 0, [R(1, n + 2)])] + [('req', 1, 1)] * 3)
        # cleared and loaded again with entries in flight
        mk([(1, n), (2, 1)], [('req', 1, 1)] * n + [rel('clearall'), ('req', 1, 1), ('req', 2, 1), ('req', 2, 1),
                                                   rel('all', 0, [R(1, n + 1), R(2, 0), R(2, 3)]), ('req', 1, 1), ('req', 1, 1), ('req', 2, 1), ('req', 2, 1)])
        # a list of invalid rules only uncaps THIS resource, not the other one
        mk([(1, n), (2, n)], [rel('res', 1, [R(1, 0), R(1, n, 1)])] + [('req', 1, 1)] * (n + 1) + [('req', 2, 1)] * (n + 1))
        mk([(1, n), (2, n)], [rel('all', 0, [R(1, 0), R(2, n), R(0, 1)])] + [('req', 1, 1)] * (n + 1) + [('req', 2, 1)] * (n + 1))
        # invalid rules between valid ones; the same list twice; rules naming another resource in a per-resource push
        mk([(1, 5)], [rel('all', 0, [R(1, n + 1), R(1, 0), R(1, n), R(2, 0)])] * 2 + [('req', 1, 1)] * (n + 1) + [rel('clear', 2), ('req', 1, 1), ('exit', 1), ('req', 1, 1)])
        mk([(1, 5)], [rel('res', 1, [R(2, 1), R(1, n)]), ('req', 2, 1), ('req', 2, 1)] + [('req', 1, 1)] * (n + 1) + [rel('clear', 1), ('req', 1, 1)])
    return scns, tr


def tlc_scenarios(c, thorough, tr):
    scns = []
    cap = 2500 if not thorough else 40000
    cfg = mc_cfg('MCGenCfgs', 'MCGenBatches', 4 if not thorough else 5, check=False, extra='ACTION_CONSTRAINT Emit\n')
    r = c.tlc('Isolation_MC', cfg_text=cfg, workers=4, timeout=900, count=False)
    if r.error:
        raise MachineryError('scenario generation failed: %s\n%s' % (r.error, r.out[-1500:]))
    hs = r.json_prints()
    keep = maximal(hs)
    n = len(keep)
    if len(keep) > cap:
        keep = c.rng.sample(keep, cap)
    for hist in keep:
        tr += 1
        scns.append(decorate(c, hist, tr))
    c.log('S2 transition cover: %d transitions -> %d maximal scenarios, %d kept' % (len(hs), n, len(keep)))
    cover = len(scns)
    num = 200 if not thorough else 3000
    cfg = mc_cfg('MCCfgs', 'MCBatches', 14, check=False, extra='ACTION_CONSTRAINT Emit\n')
    r = c.tlc('Isolation_MC', cfg_text=cfg, workers=1, timeout=900, count=False,
              args=['-simulate', 'num=%d' % num, '-depth', '24', '-seed', str(c.seed)])
    keep = maximal(r.json_prints())
    if not keep:
        raise MachineryError('TLC simulation produced no behaviours\n' + r.out[-1500:])
    nsim = len(keep)
    if len(keep) > (800 if not thorough else 20000):     # (TLC evaluates Emit for every candidate successor of a simulation step)
        keep = c.rng.sample(keep, 800 if not thorough else 20000)
    for hist in keep:
        tr += 1
        scns.append(decorate(c, hist, tr))
    c.log('S2 TLC simulation: %d behaviours, %d kept' % (nsim, len(keep)))
    return scns, cover, tr


def random_scenarios(c, n, tr):
    rng = c.rng
    scns = []
    for _ in range(n):
        tr += 1
        rules = []
        for j in range(rng.choice([1, 1, 2, 2, 3])):
            nn = rng.choice([1, 2, 2, 3, 3, 5, 7, 65535, 65536, 2 ** 31 - 1, 2 ** 31, M32 - 1, M32])
            rules.append(dict(res=1 if (j == 0 or rng.random() < 0.6) else 2, N=limbs(nn)))
        s = [dict(op='new', tr=tr, nres=2, rules=rules)]
        small = [r for r in rules if value(r['N']) < 100]
        pending = []
        rid = 0
        storm_at = rng.randint(0, 12) if rng.random() < 0.2 else -1
        prel = rng.choice([0, 0, 0.1, 0.2, 0.3])      # rule lists replaced / cleared under traffic, invalid rules among them
        for step in range(rng.randint(10, 40)):
            if rng.random() < prel:
                via = rng.choice(['all', 'all', 'res', 'res', 'res', 'clear', 'clear', 'clearall'])
                r = rng.choice([1, 2]) if via in ('res', 'clear') else 0
                raw = []
                if via in ('all', 'res'):
                    for _ in range(rng.choice([0, 1, 1, 2, 2, 3])):
                        res = rng.choice([1, 2, 0]) if (via == 'all' or rng.random() < 0.15) else r
                        raw.append(dict(res=res, N=limbs(rng.choice([0, 0, 0, 1, 1, 2, 2, 3, 5, 2 ** 31, M32])), mt=rng.choice([0, 0, 0, 0, 0, 1, 7])))
                s.append(dict(op='reload', via=via, r=r, rules=raw))
                small = [x for x in raw if 0 < value(x['N']) < 100] or small
                continue
            if step == storm_at:
                # free-running goroutines (real parallelism): gauge conserved, bound N + W-1, freed capacity reusable afterwards
                s.append(dict(op='storm', res=rng.choice([1, 1, 2]), workers=rng.choice([2, 4, 8]), iters=rng.choice([50, 200, 400])))
                continue
            if rng.random() < 0.6 or not pending:
                rid += 1
                b = rng.choice([0, 1, 1, 1, 1, 2, 2, 3, 3, 65535, 65536, 2 ** 31 - 1, 2 ** 31, 2 ** 31 + 1, M32 - 2, M32 - 1, M32])
                if small and rng.random() < 0.25:       # batches that make in-flight + b land exactly around 2^32 or around N
                    b = rng.choice([M32 + 1 - k for k in (1, 2, 3)] + [max(0, value(rng.choice(small)['N']) - k) for k in (0, 1, 2)])
                o = dict(op='req', res=rng.choice([1, 1, 1, 2]), b=limbs(b), id=rid)
                if rng.random() < 0.3:
                    o['rt'] = rng.choice([0, 1, 2, 3, 4])       # the same resource entered with different resource types / traffic types
                if rng.random() < 0.2:
                    o['inb'] = True
                pending.append(rid)
            else:
                o = dict(op='exit', id=pending.pop(rng.randrange(len(pending))))
            if rng.random() < 0.3:
                o['dt'] = rng.choice([1, 250, 499, 500, 1000, 10001, 59999, 60000, 60001, 120000, 3600000])   # (entries may be held for longer than any statistic window or RT bound)
            s.append(o)
        scns.append(s)
    return scns, tr


def path_scenarios(c, thorough, tr):
    scns = []
    for k, cap in ((2, 200 if not thorough else 10 ** 6), (3, 500 if not thorough else 10 ** 6)):
        cfg = path_cfg(k, 'MCTsGenC', '{0, 1, 2}', '{0, 1, 2}', invs='', extra='ACTION_CONSTRAINT Emit\n')
        r = c.tlc('AdmitPath_MC', cfg_text=cfg, workers=2, timeout=900, count=False)
        if r.error:
            raise MachineryError('schedule generation failed: %s\n%s' % (r.error, r.out[-1500:]))
        hs = [x for x in r.json_prints() if isinstance(x, dict)]
        n = len(hs)
        if len(hs) > cap:
            hs = c.rng.sample(hs, cap)
        for x in hs:
            tr += 1
            s = [dict(op='new', tr=tr, nres=1, rules=[dict(res=1, N=limbs(x['T'][0]))])]
            s += [dict(op='req', res=1, b=limbs(1), id=i + 1) for i in range(x['w0'])]
            s.append(dict(op='conc', res=1, bs=x['bs'], sched=x['sched'], exp=x['dec']))
            s.append(dict(op='req', res=1, b=limbs(1), id=10))
            s.append(dict(op='exit', id=1))
            s.append(dict(op='req', res=1, b=limbs(1), id=11))
            scns.append(s)
        c.log('S2 AdmitPath K=%d: %d complete schedules emitted by TLC, %d replayed' % (k, n, len(hs)))
    return scns, tr


# ------------------------------------------------------------------ S3 / S4
def split_traces(lines):
    out, cur = {}, None
    for l in lines:
        if l.get('op') == 'new':
            cur = l['tr']
            out[cur] = []
        out[cur].append(l)
    return out


def validate_file(c, tp, tag, cfg=None):
    nlines = sum(1 for _ in open(tp))
    mism, consumed, r = c.validate('Isolation_Trace', tp, nlines, cfg=cfg)
    if consumed != nlines:
        raise MachineryError('%s: trace validation consumed %d of %d lines (malformed trace?)\n%s' % (tag, consumed, nlines, r.out[-1500:]))
    drift = [l for l in r.out.splitlines() if l.startswith('"DRIFT ')]
    return mism, nlines, r, drift


def run_and_validate(c, drv, scns, tag, count=True):
    sp = os.path.join(c.scratch, tag + '.scn.ndjson')
    tp = os.path.join(c.scratch, tag + '.trace.ndjson')
    write_ndjson(sp, [o for s in scns for o in s])
    c.run([drv, sp, tp], timeout=600)
    mism, nlines, r, drift = validate_file(c, tp, tag)
    if count:
        c.cov['traces_validated_against_impl'] += len(scns)
        c.cov['evaluations'] += nlines
        c.cov['implementation_drift'] = c.cov.get('implementation_drift', 0) + len(drift)
        c.log('S3/S4 %s: %d scenarios, %d events validated in %.0fs, %d mismatching traces, %d drift remarks' % (
            tag, len(scns), nlines, r.wall, len(mism), len(drift)))
        for d in drift[:3]:
            c.log('   drift remark: ' + d[:300])
    if mism:
        lines = open(tp).read().splitlines()
        mism = [(tr, ln, exp + '  OBSERVED: ' + lines[ln - 1][:400]) for tr, ln, exp in mism]
    return mism, tp


def binding_selftest(c, tp):
    """corrupt one recorded observable (decision, gauge or reported value) in each of the first traces of a good trace
    file: every corrupted trace must be rejected"""
    lines = [json.loads(l) for l in open(tp)]
    out, n, want, order = [], 0, set(), {}
    done = True
    for e in lines:
        if e['op'] == 'new':
            n += 1
            if n > 40:
                break
            order[e['tr']] = n
            done = False
            skip = c.rng.randint(0, 3)
        elif not done and e['op'] in ('req', 'exit', 'reload'):
            if skip > 0:
                skip -= 1
            else:
                kind = c.rng.choice(['conc', 'ok', 'val'])
                if e['op'] == 'reload':
                    if kind == 'val':
                        e['got'][0] = e['got'][0] + [limbs(7)]
                    else:
                        e['conc'][c.rng.randrange(len(e['conc']))] += 1
                elif kind == 'ok' and e['op'] == 'req' and not e['ok']:
                    e = dict(op='req', res=e['res'], b=e['b'], id=e['id'], ok=True, conc=e['conc'] + 1)
                elif kind == 'val' and e['op'] == 'req' and not e['ok']:
                    if c.rng.random() < 0.5:
                        e['val'] = limbs(value(e['val']) + 1)
                    else:
                        e['rN'] = limbs(value(e['rN']) + 1)
                else:
                    e['conc'] += 1
                done = True
                want.add(n)
        out.append(e)
    cp = os.path.join(c.scratch, 'corrupt.ndjson')
    write_ndjson(cp, out)
    mism, _, _, _ = validate_file(c, cp, 'corrupt')
    got = {order[m[0]] for m in mism}
    if got != want or len(want) < 5:
        raise MachineryError('binding self-test failed: corrupted traces %s, rejected %s' % (sorted(want), sorted(got)))
    c.cov['binding_selftest'] = '%d corrupted traces, all rejected' % len(want)
    c.log('binding self-test: %d corrupted traces, all rejected by Isolation_Trace' % len(want))


def gate_selftest(c, tp):
    """the goroutine gate really interleaves the callers: in some gated sections every caller is parked at the yield point
    "chain.checked" before anyone records, and the gauge overshoots N as AdmitPath predicts"""
    parked = over = 0
    for tr, lines in split_traces(read_ndjson(tp)).items():
        n = min(value(r['N']) for r in lines[0]['rules'])
        for e in lines:
            if e['op'] == 'conc':
                k = len(e['bs'])
                parked += e['points'][:k] == ['chain.checked'] * k
                over += e['conc'] > n
    if parked == 0 or over == 0:
        raise MachineryError('gate self-test failed: %d sections with all callers parked at chain.checked, %d overshoots' % (parked, over))
    c.cov['gate_selftest'] = '%d gated sections with all callers parked at chain.checked, %d with in-flight > N' % (parked, over)
    c.log('gate self-test: ' + c.cov['gate_selftest'])


def classify(c, drv, scns):
    """{tr: key}: a deviation is the known batch-overflow defect iff the recorded behaviour is EXACTLY what the property
    demands once `in-flight + batch` is computed modulo 2^32, and the scenario does contain a batch that overflows"""
    cand = [s for s in scns if any(o['op'] == 'req' and value(o['b']) + 64 > M32 for o in s)]
    if not cand:
        return {}
    sp = os.path.join(c.scratch, 'classify.scn.ndjson')
    tp = os.path.join(c.scratch, 'classify.trace.ndjson')
    write_ndjson(sp, [o for s in cand for o in s])
    c.run([drv, sp, tp], timeout=600)
    mism, _, _, _ = validate_file(c, tp, 'classify', cfg='Isolation_TraceWrap')
    bad = {m[0] for m in mism}
    return {s[0]['tr']: KEY_WRAP for s in cand if s[0]['tr'] not in bad}


def handle_mismatches(c, drv, scns, mism, tag):
    if not mism:
        return
    by_tr = {s[0]['tr']: s for s in scns}
    cands = sorted(mism, key=lambda m: len(by_tr[m[0]]))
    keys = classify(c, drv, [by_tr[m[0]] for m in cands])
    explained = [m for m in cands if m[0] in keys]
    other = [m for m in cands if m[0] not in keys]
    c.log('%s: %d mismatching traces are exactly the uint32 batch-overflow deviation, %d are not' % (tag, len(explained), len(other)))
    sel = explained[:2] + other[:6]
    sel_scns = [by_tr[m[0]] for m in sel]
    # scenarios with a free-running phase (storm) depend on real scheduling: up to six replays, two reproductions required;
    # sequential / gated scenarios must reproduce in both of the first two replays
    racy = {m[0] for m in sel if any(o['op'] == 'storm' for o in by_tr[m[0]])}
    seen = []
    for i in range(6 if racy else 2):
        m2, _ = run_and_validate(c, drv, sel_scns, 'confirm-%s-%d' % (tag, i), count=False)
        seen.append({m[0] for m in m2})
        if i >= 1 and all(sum(1 for sn in seen if t in sn) >= 2 for t in racy):
            break
    for tr, line, exp in sel:
        s = by_tr[tr]
        rp = c.save_replay('%s-tr%d.ndjson' % (tag, tr), s)
        ok = (sum(1 for sn in seen if tr in sn) >= 2) if tr in racy else (tr in seen[0] and tr in seen[1])
        if not ok:
            c.inconclusive.append('mismatch of %s trace %d did not reproduce' % (tag, tr))
            continue
        key = keys.get(tr)
        what = 'observable differs from "admitted iff in-flight + batch <= N" at line %d of trace %d; expected %s' % (line, tr, exp[:500])
        if key and c.is_known(key):
            c.known(key, c.kf[key]['description'])
        else:
            c.violation(('[%s] ' % key if key else '') + what, rp)


def nontrivial(trace):
    """a recorded trace exercises the property if it contains a rejection, an admission and an exit followed by a request"""
    oks = [e['ok'] for e in trace if e['op'] == 'req'] + [x for e in trace if e['op'] == 'conc' for x in e['oks']]
    ops = [e['op'] for e in trace]
    reuse = any(a == 'exit' and b == 'req' for a, b in zip(ops, ops[1:])) or 'conc' in ops
    return (True in oks) and (False in oks) and reuse


def count_nontrivial(c, tp, seen):
    for tr, lines in split_traces(read_ndjson(tp)).items():
        infl = 0
        for e in lines:
            if e['op'] == 'req' and e['ok']:
                infl += 1
            elif e['op'] == 'exit':
                infl -= 1
            elif e['op'] == 'reload':
                c.cov['reload_events'] = c.cov.get('reload_events', 0) + 1
                c.cov['reload_via_' + e['via']] = c.cov.get('reload_via_' + e['via'], 0) + 1
                if any(value(r['N']) == 0 or r['mt'] != 0 or r['res'] == 0 for r in e['rules']):
                    c.cov['reloads_with_invalid_rules'] = c.cov.get('reloads_with_invalid_rules', 0) + 1
                if infl > 0:
                    c.cov['reloads_with_entries_in_flight'] = c.cov.get('reloads_with_entries_in_flight', 0) + 1
        if nontrivial(lines):
            seen.add(json.dumps([{k: v for k, v in e.items() if k != 'tr'} for e in lines], sort_keys=True))


def check(c, tier, replay):
    if os.environ.get('VERIF_KNOWN_FINDINGS'):      # private copy of known_findings.json (to try the KNOWN-FINDING path)
        data = json.load(open(os.environ['VERIF_KNOWN_FINDINGS']))
        c.kf = {e['key']: e for e in data.get('findings', []) if e.get('property') == c.pid and e.get('status', 'open') == 'open'}
    drv = c.build('c04')
    if replay:
        s = read_ndjson(replay)
        mism, _ = run_and_validate(c, drv, [s], 'replay')
        if mism:
            key = classify(c, drv, [s]).get(s[0]['tr'])
            if key and c.is_known(key):
                c.known(key, c.kf[key]['description'])
            else:
                c.violation('replayed scenario: observable differs from the property: %s' % (mism[0][2][:500]), replay)
        c.cov['states'] = c.cov['transitions'] = 1
        c.sample(s[:8])
        return
    thorough = tier == 'thorough'
    model_check(c, thorough)
    tr = 0
    tl, cover, tr = tlc_scenarios(c, thorough, tr)
    rs, tr = random_scenarios(c, 500 if not thorough else 6000, tr)
    # a fixed family of free-running phases (every run has them, whatever the seed draws): thresholds around the number of callers
    for n, w in ((1, 4), (2, 4), (3, 8), (8, 8), (2, 2), (12, 8)) * (1 if not thorough else 4):
        tr += 1
        rs.append([dict(op='new', tr=tr, nres=2, rules=[dict(res=1, N=limbs(n))]),
                   dict(op='req', res=1, b=limbs(1), id=1), dict(op='storm', res=1, workers=w, iters=400),
                   dict(op='req', res=1, b=limbs(1), id=2), dict(op='exit', id=1), dict(op='storm', res=1, workers=w, iters=200),
                   dict(op='req', res=1, b=limbs(1), id=3), dict(op='exit', id=2), dict(op='exit', id=3)])
    ps, tr = path_scenarios(c, thorough, tr)
    rl, tr = reload_tlc_scenarios(c, thorough, tr)
    dl, tr = directed_reload_scenarios(c, tr)
    seen = set()
    for tag, group in (('tlc', tl), ('random', rs), ('gated', ps), ('reload', rl), ('directed', dl)):
        for i in range(0, len(group), 3000):
            part = group[i:i + 3000]
            mism, tp = run_and_validate(c, drv, part, '%s%d' % (tag, i))
            if tag == 'random' and i == 0:
                bad = {m[0] for m in mism}
                good = os.path.join(c.scratch, 'good.ndjson')
                write_ndjson(good, [e for t, ls in split_traces(read_ndjson(tp)).items() if t not in bad for e in ls])
                binding_selftest(c, good)
            if tag == 'gated' and i == 0:
                gate_selftest(c, tp)
            count_nontrivial(c, tp, seen)
            c.cov['conformance_mismatches'] += len(mism)
            handle_mismatches(c, drv, part, mism, tag)
    c.cov['distinct_nontrivial'] = len(seen)
    c.cov['rule'] = ('scenarios = one per transition of a bounded Isolation instance (%d) + TLC random simulation + seeded random '
                     'histories (entries held open, random exit order, batches over the whole uint32 range) + every complete '
                     'AdmitPath schedule TLC emits (gated goroutines); non-trivial = distinct recorded trace with a rejection, an '
                     'admission and a request right after an exit (or a gated section); implementation_drift = remarks where the '
                     'real outcomes differ from the AdmitPath replay of the schedule without breaking the bound; + one scenario per '
                     'transition of the bounded instance with reloads, TLC simulation with reloads, hand-written reload shapes' % cover)
    c.sample(tl[len(tl) // 2][:8])
    c.sample(rs[0][:8])
    c.sample(ps[-1])
    c.sample(dl[0])
    c.assumptions += ['fresh resources per scenario; rule lists are loaded at the start of a scenario and replaced / cleared in the '
                      'middle of it (reload op: LoadRules / LoadRulesOfResource / ClearRulesOfResource / ClearRules, invalid rules included)',
                      'uint32 thresholds / batches / reported values are carried as two 16-bit limbs and compared as mathematical integers',
                      'gated callers use small batches; the k-callers bound is N + k-1 for batches >= 1 (one more when a zero batch is present)',
                      'TLC model checking is exhaustive only for the bounded instances listed in tlc_runs']


_check_without_apalache = check


def check(c, tier, replay):
    _check_without_apalache(c, tier, replay)
    if tier == 'thorough' and not replay:
        import apalache
        apalache.run(c)       # inductive invariant for an unbounded threshold / batch (extra evidence, see lib/apalache.py)


main('C04', check)
