"""C19 - framework adapters honour the entry contract on every path.

S1  TLC checks AdapterContract.tla: K concurrent requests through an adapter written the way the contract demands
    (entry, early return on block, deferred exit, trace on error) satisfy the contract automaton, the in-flight gauge
    is exact and returns to 0; the SIDE of an entry point (server = inbound, client = outbound) is a parameter of the
    model: a server-side request is blocked by system protection (block type system) iff the loaded system rule is
    violated when the entry is asked, a client-side call never is, nothing is blocked without a cause, and the global
    inbound gauge counts exactly the server-side requests in flight; seven deliberately broken adapters (Mut) each
    violate the clause they break.
S2/S3  for every adapter module that builds offline (echo fiber gear gin go-zero goframe grpc iris kratos micro) the
    module is copied from $VERIF_REPO/pkg/adapters/<x> to a scratch dir, retargeted to the working tree of the core
    (go mod edit -go=1.22 -replace ...=$VERIF_REPO, go.sum appended), the driver adapters/<x>/driver_test.go +
    adapters/_common/verifcommon_test.go dropped in, and `go test -run TestVerifDriver` run (all adapters in parallel).
    The driver sends {admitted, blocked} x {handler ok, error, panic} through EVERY exported entry point with and
    without fallback / resource-extractor options, three rounds, and records one event log per request.  Next to
    these flow-rule scenarios every (entry point, variant) is sent through the system-protection scenarios sys-conc /
    sys-qps (a VIOLATED system rule is the only rule in force) and sys-slack (loaded, not violated); the block type of
    every block and the global inbound gauge (as the handler sees it, and afterwards) are recorded.  An entry point
    without these scenarios, or whose declared side contradicts its name, is exit 2.
    hertz and kitex are probed too: they do not build with the installed toolchain and are listed as not covered.
    Guard: every exported function of an adapter package must be a driven entry point, an exercised option, or be
    listed in NOT_ENTRY with a reason - otherwise exit 2 ("uncovered entry point").
S4  AdapterContract_Trace.tla (TLC) judges every recorded request with the automaton of AdapterContract.tla.
S5  mismatches are grouped per (adapter, entry point, clause), confirmed twice in fresh processes, classified.
"""
import json, os, re, shutil, subprocess, concurrent.futures as cf
import vlib
from vlib import main, write_ndjson, read_ndjson, MachineryError, goenv, VERIF, REPO

ADAPTERS = ['echo', 'fiber', 'gear', 'gin', 'go-zero', 'goframe', 'grpc', 'iris', 'kratos', 'micro']
UNBUILDABLE = ['hertz', 'kitex']          # measured: do not compile offline with the installed toolchain (probed on every run)
ADIR = os.path.join(VERIF, 'adapters')

# exported functions that are deliberately not driven as entry points, with the reason
NOT_ENTRY = {
    'gear': {'Example': 'example program in a non-test file'},
    'kratos': {'OutlierClientFilter': 'selector node filter: reads request metadata, never asks for an entry',
               'DefaultResourceExtract': 'default value of the resource-extract option (exercised by the default variant)',
               'DefaultBlockFallback': 'default value of the fallback option (exercised by the default variant)',
               'DefaultEnableOutlier': 'default value of the enable-outlier option (exercised by the default variant)',
               'ServiceNameExtract': 'resource name helper of the outlier branch (exercised by the outlier variants)',
               'options.Apply': 'method of the unexported options type'},
    'micro': {'WithSelectOption': 'call option built from an existing entry by the outlier branch (exercised through it)',
              'WithCallWrapper': 'call option built from an existing entry by the outlier branch (exercised through it)'},
}
# exported methods reached through a constructor: source name -> name in the driver's registry
ALIAS = {'micro': {'clientWrapper.Call': 'NewClientWrapper/Call', 'clientWrapper.Stream': 'NewClientWrapper/Stream',
                   'NewClientWrapper': 'NewClientWrapper/Call'}}

FUNC_RE = re.compile(r'^func\s+(?:\(\s*\w*\s*\*?\s*(\w+)\s*\)\s*)?([A-Za-z_]\w*)\s*[\(\[]', re.M)


def exported_functions(adir):
    """top-level exported functions / methods of the adapter package (non-test files of the module root)"""
    out = set()
    for f in sorted(os.listdir(adir)):
        if not f.endswith('.go') or f.endswith('_test.go'):
            continue
        for recv, name in FUNC_RE.findall(open(os.path.join(adir, f)).read()):
            if name[0].isupper():
                out.add('%s.%s' % (recv, name) if recv else name)
    return out


def src_dir(a):
    return os.path.join(REPO, 'pkg', 'adapters', a)


def prepare(c, a, tag=''):
    """scratch copy of the adapter module, retargeted to the core under test"""
    d = os.path.join(c.scratch, 'mod-%s%s' % (a, tag))
    if os.path.exists(d):
        shutil.rmtree(d)
    shutil.copytree(src_dir(a), d)
    core = os.path.realpath(REPO)
    p = subprocess.run(['go', 'mod', 'edit', '-go=1.22', '-replace', 'github.com/alibaba/sentinel-golang=' + core], cwd=d, env=goenv(),
                       stdout=subprocess.PIPE, stderr=subprocess.STDOUT, text=True)
    if p.returncode != 0:
        raise MachineryError('go mod edit failed for %s: %s' % (a, p.stdout[-500:]))
    with open(os.path.join(d, 'go.sum'), 'a') as f:
        f.write(open(os.path.join(core, 'go.sum')).read())
    return d


def package_name(d):
    for f in sorted(os.listdir(d)):
        if f.endswith('.go') and not f.endswith('_test.go'):
            m = re.search(r'(?m)^package\s+(\w+)', open(os.path.join(d, f)).read())
            if m:
                return m.group(1)
    raise MachineryError('no package clause in ' + d)


def drive(c, a, tag=''):
    """run the conformance driver of adapter a in a fresh process; returns (records, wall seconds)"""
    import time
    t0 = time.time()
    d = prepare(c, a, tag)
    common = open(os.path.join(ADIR, '_common', 'verifcommon_test.go')).read().replace('package PKGNAME', 'package ' + package_name(d), 1)
    open(os.path.join(d, 'verifcommon_test.go'), 'w').write(common)
    shutil.copy(os.path.join(ADIR, a, 'driver_test.go'), os.path.join(d, 'verifdriver_test.go'))
    out = os.path.join(d, 'verif-out.ndjson')
    env = goenv()
    env['VERIF_TRACE_OUT'] = out
    env['VERIF_SEED'] = str(c.seed)
    env['VERIF_ROUNDS'] = '12' if c.tier == 'thorough' else '3'
    try:
        p = subprocess.run(['go', 'test', '-run', '^TestVerifDriver$', '-count=1', '-timeout', '120s', '.'], cwd=d, env=env,
                           stdout=subprocess.PIPE, stderr=subprocess.STDOUT, text=True, timeout=900)
    except subprocess.TimeoutExpired:
        raise MachineryError('driver of adapter %s timed out' % a)
    if p.returncode != 0 or not os.path.exists(out):
        raise MachineryError('driver of adapter %s failed (rc=%d):\n%s' % (a, p.returncode, p.stdout[-2500:]))
    recs = read_ndjson(out)
    shutil.rmtree(d, ignore_errors=True)
    return recs, time.time() - t0


def probe_unbuildable(c, a):
    """hertz / kitex: confirm on every run that the module still does not build offline"""
    d = prepare_nofail(c, a)
    if d is None:
        return 'go mod edit failed'
    try:
        p = subprocess.run(['go', 'vet', '.'], cwd=d, env=goenv(), stdout=subprocess.PIPE, stderr=subprocess.STDOUT, text=True, timeout=600)
    except subprocess.TimeoutExpired:
        return 'build timed out'
    shutil.rmtree(d, ignore_errors=True)
    if p.returncode == 0:
        return None
    lines = [l.strip() for l in p.stdout.splitlines() if l.strip() and not l.startswith('#')]
    errs = [l for l in lines if '.go:' in l or l.startswith('go:')]
    return ((errs or lines or ['build failed'])[0])[:220]


def prepare_nofail(c, a):
    try:
        return prepare(c, a)
    except MachineryError:
        return None


SYS_LOADS = ['sys-conc', 'sys-qps', 'sys-slack']     # system-protection scenarios (adapters/_common: VSysLoads)


# client-side entry points whose framework can fail the wrapped (downstream) call at other layers than the node itself: the
# layered outcomes every variant of the entry point must have been sent through (adapters/_common: VLayerOf)
LAYERED = {
    'micro': {'NewClientWrapper/Call': ['err@registry', 'err@ctx', 'err@backoff', 'err@retry'],
              'NewClientWrapper/Stream': ['err@registry', 'err@ctx', 'err@backoff', 'err@retry']},
    'grpc': {'NewUnaryClientInterceptor': ['err@ctx'], 'NewStreamClientInterceptor': ['err@ctx']},
    'kratos': {'SentinelClientMiddleware': ['err@ctx']},
}
LAYER_OF = {'err@registry': 'pre', 'err@ctx': 'pre', 'err@backoff': 'pre', 'err@retry': 'post'}


def desc(e):
    return (e['adapter'], e['ep'], e['variant'], e['want'], e.get('oc') or e['cls']['outcome'])


def validate(c, recs, tag):
    """recs: req records (tr renumbered here).  returns {tr: why-json} for the rejected ones"""
    for i, e in enumerate(recs):
        e['tr'] = i + 1
    tp = os.path.join(c.scratch, tag + '.trace.ndjson')
    write_ndjson(tp, recs)
    mism, consumed, r = c.validate('AdapterContract_Trace', tp, len(recs))
    if consumed != len(recs):
        raise MachineryError('%s: trace validation consumed %d of %d lines (malformed trace?)\n%s' % (tag, consumed, len(recs), r.out[-1500:]))
    return {tr: json.loads(exp) for tr, _, exp in mism}, r


def binding_selftest(c, good):
    """corrupt the event log of accepted requests in the ways the property forbids: every one must be rejected"""
    rng = c.rng
    pool = list(good)
    rng.shuffle(pool)
    out = []

    def take(pred, n):
        got = [json.loads(json.dumps(e)) for e in pool if pred(e)][:n]
        return got
    adm = lambda e: 'pass' in e['events'] and 'handler' in e['events']
    blk = lambda e: 'block' in e['events']
    for e in take(adm, 12):
        e['events'] = [x for x in e['events'] if not x.startswith('complete')]; e['corr'] = 'exit dropped'; out.append(e)
    for e in take(adm, 12):
        i = e['events'].index('handler'); e['events'].insert(i, 'handler'); e['corr'] = 'second handler'; out.append(e)
    for e in take(adm, 8):
        e['events'].append('complete'); e['corr'] = 'second exit'; out.append(e)
    for e in take(adm, 8):
        e['conc'] = 1; e['corr'] = 'gauge stuck at 1'; out.append(e)
    for e in take(blk, 12):
        e['events'].insert(1, 'handler'); e['corr'] = 'handler when blocked'; out.append(e)
    for e in take(blk, 12):
        e['events'] = ['block']; e['corr'] = 'no fallback / rejection'; out.append(e)
    for e in take(lambda e: adm(e) and e['cls']['outcome'] == 'err' and e['cls']['errsig'] and 'complete-err' in e['events'], 8):
        e['events'] = [('complete' if x == 'complete-err' else x) for x in e['events']]; e['corr'] = 'error not traced'; out.append(e)
    for e in take(adm, 6):
        e['events'] = [x for x in e['events'] if x != 'pass']; e['corr'] = 'entry never asked'; out.append(e)
    for e in take(adm, 6):
        ev = e['events']; i, j = ev.index('handler'), [k for k, x in enumerate(ev) if x.startswith('complete')][0]
        ev[i], ev[j] = ev[j], ev[i]; e['corr'] = 'exit before handler'; out.append(e)
    n_old = len(out)
    sysblk = lambda e: e['cls']['sys'] == 'violated' and e['cls']['side'] == 'server' and blk(e)
    sysadm = lambda e: e['cls']['sys'] == 'violated' and e['cls']['side'] == 'client' and adm(e)
    for e in take(sysblk, 10):
        e['events'] = ['pass', 'handler', 'complete']; e['btype'] = ''; e['inbh'] = 1; e['corr'] = 'server request admitted under a violated system rule'; out.append(e)
    for e in take(sysblk, 8):
        e['btype'] = 'flow'; e['corr'] = 'system block carries another block type'; out.append(e)
    for e in take(sysblk, 6):
        e['cls']['side'] = 'client'; e['corr'] = 'client call blocked by system protection'; out.append(e)
    for e in take(sysadm, 8):
        e['events'] = ['block', 'fallback' if e['cls']['fb'] == 'custom' else 'reject']; e['btype'] = 'system'; e['inbh'] = -1
        e['corr'] = 'client call blocked by system protection (log)'; out.append(e)
    for e in take(lambda e: adm(e) and e['cls']['side'] == 'server' and e['inbh'] == 1, 8):
        e['inbh'] = 0; e['corr'] = 'server request not counted on the inbound node'; out.append(e)
    for e in take(lambda e: adm(e) and e['cls']['side'] == 'client' and e['inbh'] == 0, 8):
        e['inbh'] = 1; e['corr'] = 'client call counted on the inbound node'; out.append(e)
    for e in take(lambda e: adm(e) and e['cls']['side'] == 'server', 6):
        e['inb'] = 1; e['corr'] = 'inbound gauge stuck'; out.append(e)
    for e in take(lambda e: e['cls']['sys'] == 'slack' and adm(e), 6):
        e['events'] = ['block', 'fallback' if e['cls']['fb'] == 'custom' else 'reject']; e['btype'] = 'system'; e['inbh'] = -1
        e['corr'] = 'blocked although no rule is violated'; out.append(e)
    for e in take(lambda e: blk(e) and e['cls']['flow'] and e['src'] == 'slot', 6):
        e['btype'] = 'system'; e['corr'] = 'flow block carries block type system'; out.append(e)
    for e in take(lambda e: adm(e) and e['cls']['layer'] != 'node' and 'complete-err' in e['events'], 10):
        e['events'] = [('complete' if x == 'complete-err' else x) for x in e['events']]; e['corr'] = 'error of another layer than the node not traced'; out.append(e)
    for e in take(lambda e: adm(e) and e['cls']['outcome'] == 'ok', 4):
        e['cls']['layer'] = 'pre'; e['corr'] = 'malformed class (layer without error)'; out.append(e)
    if len(out) < 20 or len(out) - n_old < 50:
        raise MachineryError('binding self-test: too few accepted requests to corrupt (%d, %d of the system-protection kinds)' % (len(out), len(out) - n_old))
    bad, r = validate(c, out, 'corrupt')
    missed = [e['corr'] for e in out if e['tr'] not in bad]
    if missed:
        raise MachineryError('binding self-test failed: corrupted requests accepted: %s' % sorted(set(missed)))
    c.cov['binding_selftest'] = '%d corrupted event logs (%d kinds of corruption), all rejected' % (len(out), len({e['corr'] for e in out}))
    c.log('binding self-test: %d corrupted event logs, all rejected by AdapterContract_Trace' % len(out))


def classify(c, adapter, ep, variant, want, why, e):
    """known-finding key of a confirmed mismatch (None = unclassified)"""
    outlier = 'outlier' in variant and 'outlier-off' not in variant
    if adapter in ('micro', 'kratos') and outlier and want == 'block' and e['escaped']:
        return 'C19/%s/outlier-branch/nil-entry-on-block' % adapter
    if adapter == 'micro' and ep == 'NewClientWrapper/Stream' and outlier and why == 'handler-error-not-traced':
        return 'C19/micro/stream-outlier-branch/handler-error-not-traced'
    if adapter == 'micro' and ep == 'NewClientWrapper/Call' and outlier and why == 'handler-error-not-traced' and e['cls']['layer'] != 'node':
        return 'C19/micro/call-outlier-branch/error-outside-node-call-not-traced'
    if adapter == 'micro' and ep == 'NewStreamWrapper' and why == 'configured-fallback-not-produced':
        return 'C19/micro/stream-wrapper/stream-fallback-option-ignored'
    if adapter == 'micro' and ep == 'NewStreamWrapper' and why == 'no-entry-asked' and e['escaped']:
        return 'C19/micro/stream-wrapper/nil-stream-extractor-panic'
    if adapter == 'gear' and why in ('wrong-order', 'handler-error-not-traced'):
        return 'C19/gear/middleware/entry-exited-before-handler'
    if adapter in ('echo', 'fiber') and why == 'handler-error-not-traced':
        return 'C19/%s/middleware/handler-error-not-traced' % adapter
    return None


def run_all(c, adapters, tag=''):
    with cf.ThreadPoolExecutor(max_workers=10) as ex:
        futs = {a: ex.submit(drive, c, a, tag) for a in adapters}
        res = {}
        for a, f in futs.items():
            res[a] = f.result()
    return res


def split_registry(recs):
    reg = [e for e in recs if e['op'] == 'registry']
    reqs = [e for e in recs if e['op'] == 'req']
    if len(reg) != 1:
        raise MachineryError('driver wrote %d registry records' % len(reg))
    return reg[0], reqs


def check(c, tier, replay):
    thorough = tier == 'thorough'
    if replay:
        want = read_ndjson(replay)
        adapters = sorted({w['adapter'] for w in want})
        keys = {(w['adapter'], w['ep'], w['variant'], w['want'], w['outcome']) for w in want}
        res = run_all(c, adapters)
        recs = [e for a in adapters for e in split_registry(res[a][0])[1] if desc(e) in keys]
        if not recs:
            raise MachineryError('replay file matches no request of the drivers')
        bad, _ = validate(c, recs, 'replay')
        if bad:
            e = [x for x in recs if x['tr'] in bad][0]
            c.violation('replayed request breaks the entry contract: %s %s/%s %s/%s: %s; events %s' % (
                e['adapter'], e['ep'], e['variant'], e['want'], e.get('oc') or e['cls']['outcome'], bad[e['tr']]['why'], e['events']), replay)
        c.cov['states'] = c.cov['transitions'] = 1
        c.cov['traces_validated_against_impl'] = len(recs)
        c.sample(recs[:3])
        return
    # S1 ---------------------------------------------------------------------------------
    cfg = open(os.path.join(vlib.SPEC, 'AdapterContract_MC.cfg')).read()
    r = c.model_check('AdapterContract_MC', cfg_text=cfg.replace('K = 3', 'K = %d' % (3 if thorough else 2)), workers=8, timeout=1500)
    if not r.completed:
        c.inconclusive.append('AdapterContract.tla: %s violated - the spec no longer describes a correct design' % r.violated)
    c.cov['exhaustive'] = True
    muts = {'no-defer': ('ContractHonoured', 'GaugeExact', 'GaugeReturns', 'ExitOnce'), 'handler-when-blocked': ('ContractHonoured', 'NoHandlerWhenBlocked'),
            'double-exit': ('ContractHonoured', 'ExitOnce', 'GaugeExact', 'TypeOK', 'GaugeReturns'), 'no-trace': ('ContractHonoured', 'ErrorTraced'),
            'no-fallback': ('ContractHonoured', 'FallbackProduced'),
            'server-as-outbound': ('ContractHonoured', 'SystemProtects', 'InboundExact', 'GaugeReturns'),
            'client-as-inbound': ('ContractHonoured', 'ClientNeverSystemBlocked', 'BlockHasCause', 'InboundExact', 'GaugeReturns'),
            'trace-in-node-wrapper': ('ContractHonoured', 'ErrorTraced')}
    inv_line = [l for l in cfg.splitlines() if l.startswith('INVARIANTS')]
    if len(inv_line) != 1:
        raise MachineryError('AdapterContract_MC.cfg: one INVARIANTS line expected')

    def mutant(mut, only=None):
        t = cfg.replace('K = 3', 'K = 2').replace('Mut = "none"', 'Mut = "%s"' % mut)
        if only:
            t = t.replace(inv_line[0], 'INVARIANTS ' + only)
        return c.tlc('AdapterContract_MC', cfg_text=t, workers=2, timeout=300, count=False)
    for mut, props in muts.items():
        if mut in ('server-as-outbound', 'client-as-inbound', 'trace-in-node-wrapper'):
            continue                      # judged clause by clause below
        r = mutant(mut)
        if r.violated not in props:
            raise MachineryError('vacuity self-test: broken adapter %s should violate one of %s, TLC says %s %s' % (mut, props, r.violated, r.error))
    # the side clauses one by one: each must be violated ON ITS OWN by the adapter that breaks it
    for mut, inv in [('server-as-outbound', 'SystemProtects'), ('server-as-outbound', 'ContractHonoured'), ('server-as-outbound', 'InboundExact'),
                     ('client-as-inbound', 'ClientNeverSystemBlocked'), ('client-as-inbound', 'ContractHonoured'), ('client-as-inbound', 'BlockHasCause'),
                     ('trace-in-node-wrapper', 'ErrorTraced')]:
        r = mutant(mut, inv)
        if r.violated != inv:
            raise MachineryError('vacuity self-test: broken adapter %s should violate %s on its own, TLC says %s %s' % (mut, inv, r.violated, r.error))
    c.cov['spec_mutants'] = ('no-defer, handler-when-blocked, double-exit, no-trace, no-fallback, server-as-outbound, client-as-inbound, trace-in-node-wrapper '
                             '(errors of the layers before / after the node untraced: violates ErrorTraced): each violates the '
                             'contract invariants; server-as-outbound violates SystemProtects / ContractHonoured / InboundExact each on its own, '
                             'client-as-inbound ClientNeverSystemBlocked / ContractHonoured / BlockHasCause')
    c.log('S1 vacuity: the eight broken adapter designs violate the contract invariants (side clauses also one by one)')
    # S2 + S3 ----------------------------------------------------------------------------
    with cf.ThreadPoolExecutor(max_workers=2) as ex:
        probes = {a: ex.submit(probe_unbuildable, c, a) for a in UNBUILDABLE}
        res = run_all(c, ADAPTERS)
        not_covered = {}
        for a, f in probes.items():
            why = f.result()
            if why is None:
                raise MachineryError('adapter %s builds now but has no conformance driver: uncovered entry points' % a)
            not_covered[a] = why
    c.cov['adapters_not_covered'] = not_covered
    allreq, covered = [], {}
    for a in ADAPTERS:
        recs, wall = res[a]
        reg, reqs = split_registry(recs)
        # entry-point coverage guard
        exported = exported_functions(src_dir(a))
        eps, opts = set(reg['eps']), set(reg['options'])
        alias = ALIAS.get(a, {})
        unc = []
        for f in sorted(exported):
            name = alias.get(f, f)
            if name in eps or name in opts or f in NOT_ENTRY.get(a, {}):
                continue
            unc.append(f)
        if unc:
            raise MachineryError('uncovered entry point(s) in adapter %s: %s (no driver case, not an exercised option, not listed in NOT_ENTRY)' % (a, unc))
        sides = reg.get('sides') or {}
        for ep in eps:
            have = {(e['want'], 'block' in e['events']) for e in reqs if e['ep'] == ep and e['want'] in ('admit', 'block')}
            if not any(b for _, b in have) or not any(not b for _, b in have):
                raise MachineryError('adapter %s entry point %s: the driver did not produce both an admitted and a blocked request' % (a, ep))
            # the side is what the entry point is: declared by the driver, cross-checked with the exported name
            if sides.get(ep) not in ('server', 'client') or (sides[ep] == 'client') != ('Client' in ep):
                raise MachineryError('adapter %s entry point %s: side %r declared by the driver contradicts its name' % (a, ep, sides.get(ep)))
            for v in sorted({e['variant'] for e in reqs if e['ep'] == ep}):
                got = {e['want'] for e in reqs if e['ep'] == ep and e['variant'] == v}
                miss = [x for x in SYS_LOADS if x not in got]
                if miss:
                    raise MachineryError('adapter %s entry point %s / %s: no system-protection scenario %s (uncovered entry point)' % (a, ep, v, miss))
            for v in sorted({e['variant'] for e in reqs if e['ep'] == ep}):
                got = {e.get('oc') for e in reqs if e['ep'] == ep and e['variant'] == v and e['want'] == 'admit'}
                miss = [x for x in LAYERED.get(a, {}).get(ep, []) if x not in got]
                if miss:
                    raise MachineryError('adapter %s entry point %s / %s: the wrapped call was never failed at layer(s) %s (uncovered)' % (a, ep, v, miss))
            for e in reqs:
                if e['ep'] == ep and e['cls']['layer'] != LAYER_OF.get(e.get('oc'), 'node'):
                    raise MachineryError('adapter %s entry point %s: layer %s of the class does not match the outcome %s' % (a, ep, e['cls']['layer'], e.get('oc')))
                if e['ep'] == ep and (e['cls']['side'] != sides[ep] or e['cls']['sys'] != {'sys-conc': 'violated', 'sys-qps': 'violated', 'sys-slack': 'slack'}.get(e['want'], 'none')):
                    raise MachineryError('adapter %s entry point %s: request class %s does not match the scenario %s' % (a, ep, e['cls'], e['want']))
        covered[a] = dict(entry_points=sorted(eps), sides=sides, options=sorted(opts), requests=len(reqs), variants=sorted({e['ep'] + ' / ' + e['variant'] for e in reqs}),
                          not_entry_points=NOT_ENTRY.get(a, {}), wall_s=round(wall, 1))
        allreq += reqs
        c.log('S3 %-8s %d entry points, %d variants, %d requests (%.0fs)' % (a, len(eps), len(covered[a]['variants']), len(reqs), wall))
    c.cov['adapters_covered'] = covered
    c.cov['entry_points_covered'] = sum(len(v['entry_points']) for v in covered.values())
    # S4 ---------------------------------------------------------------------------------
    bad, r = validate(c, allreq, 'all')
    c.cov['traces_validated_against_impl'] = len(allreq)
    c.cov['evaluations'] = sum(len(e['events']) for e in allreq)
    c.log('S4 %d requests (%d events) judged by AdapterContract_Trace in %.0fs: %d rejected' % (len(allreq), c.cov['evaluations'], r.wall, len(bad)))
    good = [e for e in allreq if e['tr'] not in bad]
    binding_selftest(c, good)
    # drift: the driver wanted a block (rule with threshold 0 on the resource it computed) but the adapter used another resource name
    drift = sorted({(e['adapter'], e['ep'], e['variant']) for e in allreq
                    if e['want'] in ('admit', 'block') and (e['want'] == 'block') != ('block' in e['events']) and e['events']})
    c.cov['conformance_mismatches'] = len(drift)
    c.cov['resource_extractor_not_honoured'] = [' / '.join(x) for x in drift]
    for x in drift:
        c.log('drift (not judged): %s: the request meant to be blocked used another resource name than the configured extractor yields' % ' / '.join(x))
    sysreq = [e for e in allreq if e['want'] in SYS_LOADS]
    c.cov['system_protection_scenarios'] = dict(
        requests=len(sysreq),
        server_blocked_by_system=sum(1 for e in sysreq if e['cls']['side'] == 'server' and e['cls']['sys'] == 'violated' and 'block' in e['events'] and e['btype'] == 'system'),
        client_admitted_under_violated_rule=sum(1 for e in sysreq if e['cls']['side'] == 'client' and e['cls']['sys'] == 'violated' and 'pass' in e['events']),
        admitted_under_slack_rule=sum(1 for e in sysreq if e['cls']['sys'] == 'slack' and 'pass' in e['events']),
        entry_points={s: len({(e['adapter'], e['ep']) for e in sysreq if e['cls']['side'] == s}) for s in ('server', 'client')})
    c.log('S4 system protection: %s' % c.cov['system_protection_scenarios'])
    lay = [e for e in allreq if e['cls']['layer'] != 'node']
    c.cov['error_layer_scenarios'] = dict(requests=len(lay), traced=sum(1 for e in lay if 'complete-err' in e['events']),
                                          by_place={k: sum(1 for e in lay if e.get('oc') == k) for k in sorted(LAYER_OF)},
                                          entry_points=sorted({e['adapter'] + ' ' + e['ep'] for e in lay}))
    c.log('S4 error layers: %s' % c.cov['error_layer_scenarios'])
    c.cov['distinct_nontrivial'] = len({(desc(e), tuple(e['events'])) for e in allreq})
    c.cov['rule'] = ('one trace = one request through one (adapter, entry point, option variant, admitted|blocked, handler outcome); every request '
                     'exercises the contract (non-trivial); distinct = distinct (descriptor, event log) pairs; each is sent in three rounds')
    # S5 ---------------------------------------------------------------------------------
    groups = {}
    for e in allreq:
        if e['tr'] in bad:
            why = bad[e['tr']]['why']
            key = classify(c, e['adapter'], e['ep'], e['variant'], e['want'], why, e)
            groups.setdefault((e['adapter'], key or '%s/%s' % (e['ep'], why), key), []).append((e, why))
    if groups:
        # confirm twice: two more fresh driver processes per failing adapter
        failing = sorted({k[0] for k in groups})
        confirmed = []      # per confirmation round: set of (descriptor, why) rejected again
        for i in range(2):
            again = run_all(c, failing, '-c%d' % i)
            recs = [e for a in failing for e in split_registry(again[a][0])[1]]
            b2, _ = validate(c, recs, 'confirm%d' % i)
            confirmed.append({(desc(e), b2[e['tr']]['why']) for e in recs if e['tr'] in b2})
        for (a, gname, key), ews in sorted(groups.items(), key=lambda kv: [str(x) for x in kv[0]]):
            es = [e for e, _ in ews]
            ds = sorted({desc(e) for e in es})
            whys = sorted({w for _, w in ews})
            ep, why = '|'.join(sorted({e['ep'] for e in es})), '|'.join(whys)
            ok = sum(1 for i in range(2) if all((desc(e), w) in confirmed[i] for e, w in ews))
            name = (key or 'C19/%s/%s/%s' % (a, ep, why)).replace('/', '_').replace(' ', '')
            rp = c.save_replay(name + '.ndjson', [dict(adapter=d[0], ep=d[1], variant=d[2], want=d[3], outcome=d[4]) for d in ds])
            if ok < 2:
                c.inconclusive.append('mismatch %s %s %s did not reproduce (%d/2)' % (a, ep, why, ok))
                continue
            e = es[0]
            what = '%s %s: %s (%d request kinds, e.g. variant %s, %s request, handler %s: events %s%s)' % (
                a, ep, why, len(ds), e['variant'], e['want'], e.get('oc') or e['cls']['outcome'], e['events'],
                ', panic leaving the adapter: ' + e['panic'] if e['escaped'] and e['cls']['outcome'] != 'panic' else '')
            if key and c.is_known(key):
                c.known(key, c.kf[key]['description'])
            else:
                c.violation(what + (' [%s]' % key if key else ''), rp)
    for e in (good[:1] + [x for x in good if 'block' in x['events']][:1] + [x for x in good if x['btype'] == 'system'][:1]
              + [x for x in good if x['want'] == 'sys-conc' and x['cls']['side'] == 'client'][:1] + [x for x in allreq if x['tr'] in bad][:1]):
        c.sample({k: e[k] for k in ('adapter', 'ep', 'variant', 'want', 'cls', 'events', 'btype', 'conc', 'inb', 'inbh', 'escaped')})
    c.assumptions += ['executions, not syntax trees: the ten adapter modules that build offline are driven through every exported entry point; '
                      'hertz and kitex do not build with the installed toolchain and are not covered (DESIGN section 8)',
                      'handler errors must be traced only where the framework hands the error to the middleware (echo, fiber, gear, grpc, kratos, '
                      'micro); gin, go-zero, goframe and iris handlers return nothing, a failing handler there only sets a 5xx status',
                      'custom fallbacks follow the style the adapter documents (gin: abort; iris / goframe / gear / echo / fiber: write the response)',
                      'micro client wrapper: the rpc client below the wrapper is replaced by a stand-in that treats CallOptions exactly like '
                      'go-micro v2.9.1 (Call applies CallWrappers, Stream ignores them); the transport call is the driver handler',
                      'entry points that build a private slot chain (outlier branches of kratos and micro Call) are observed through snapshots of '
                      'the resource statistic node taken at every driver event instead of the recording slot on the global chain',
                      'a double Exit is absorbed by the once-guard of SentinelEntry.Exit (C01): exit-once is judged on completions',
                      'a resource extractor option that is not honoured is reported as drift, not judged (the statement does not mention it)',
                      'the side of an entry point (server = guards inbound traffic, client = outbound calls) is part of its API: declared per entry '
                      'point by the driver and cross-checked with the exported name (client entry points carry "Client" in their name)',
                      'error layers: for a client-side entry point the handler is the whole downstream call; micro: the stand-in below the wrapper mirrors '
                      'rpcClient.Call / Stream of go-micro v2.9.1 (registry lookup, context-done check, Backoff hook, per-node call inside the CallWrappers, '
                      'Retry hook), arranged through a cancelled context and client.WithBackoff / WithRetry call options; grpc / kratos: a cancelled context, '
                      'the invoker / next handler returns the context error; the event "handler" = the downstream call was entered',
                      'system-protection scenarios: the violated rule is system.Concurrency 1 with one inbound entry held by the driver itself, or '
                      'system.InboundQPS 0; the arrangement is confirmed by a direct inbound probe entry before each request (else exit 2); the '
                      'block type of entry points with a private slot chain is not observable and not judged']


main('C19', check)
