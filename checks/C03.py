"""C03 - circuit breaker trips, blocks and recovers exactly as specified.

S1  TLC checks Breaker.tla exhaustively on bounded instances (all three strategies, ratio thresholds 0, 1/2, 1,
    integer and fractional counts, several minimum amounts / timeouts / window geometries / probe numbers, one and
    two breakers on a resource, two resources, stragglers): invariants TypeOK, ListenerPath, Sane, ProbesSane and
    the action property Machine (opens exactly when ..., open rejects, probe after the timeout, roll-back without a
    new deadline, failed probe re-opens for a full timeout, successful probes close and clear, listeners see every
    transition once).  A few spec-level mutants must be rejected by those properties (vacuity guard).
S2  scenarios: (a) one per transition of a small two-breaker instance of the same spec (ACTION_CONSTRAINT Emit),
    (b) TLC random simulation of larger instances of the three families, (c) seeded random histories over
    production geometries in milliseconds (1-2 breakers per resource, 1-2 resources, up to 3 entries in flight).
S3  harness/cmd/c03 replays them on the real code through circuitbreaker.LoadRules / api.Entry / Exit(WithError)
    under the virtual clock and records decision, block type, triggered rule and listener callbacks per step.
S4  Breaker_Trace.tla (TLC) recomputes every step with the operators of Breaker.tla and judges the recorded values.
"""
import json, os, re, sys
import vlib
from vlib import main, write_ndjson, read_ndjson, MachineryError

KEY_TRUNC = 'C03/error-count/fractional-threshold-truncated'
WHAT_TRUNC = ('ErrorCount breaker opens although the error count has not reached a fractional threshold: the threshold is '
              'truncated toward zero when the breaker is built (uint64(rule.Threshold))')


# ------------------------------------------------------------------------------------------------ S1
def mc_cfg(fam, strat, ratio, count, mins, tos, geos, pns, steps, maxt, maxreq, maxfl, check=True, extra=''):
    def st(x):
        return '{' + ', '.join(('"%s"' % v) if isinstance(v, str) else str(v) for v in x) + '}'
    return """SPECIFICATION Spec
CONSTANTS
  RuleSets <- MCRuleSets
  Fam = %d
  StratSet = %s
  RatioNums = %s
  CountNums = %s
  MinAmts = %s
  Timeouts = %s
  Geos = %s
  ProbeNums = %s
  Steps = %s
  MaxT = %d
  MaxReq = %d
  MaxInflight = %d
VIEW view
%s
CHECK_DEADLOCK FALSE
%s""" % (fam, st(strat), st(ratio), st(count), st(mins), st(tos), st(geos), st(pns), st(steps), maxt, maxreq, maxfl,
         'INVARIANTS TypeOK ListenerPath Sane ProbesSane\nPROPERTY Machine' if check else '', extra)


ALL = ['slow', 'eratio', 'ecount']

# (description, cfg) of the exhaustive runs
MC_QUICK = [
    ('one breaker, all strategies', mc_cfg(1, ALL, [0, 1, 2], [2, 3], [1, 2], [2], [42], [0, 2], [1, 2], 5, 4, 2)),
    ('two breakers on one resource', mc_cfg(2, ['slow', 'eratio'], [1], [2], [1], [1, 2], [21], [0], [1, 2], 4, 4, 2)),
]
MC_THOROUGH = [
    ('one breaker, all strategies', mc_cfg(1, ALL, [0, 1, 2], [2, 3], [1, 3], [3], [42], [0, 2], [1, 2], 6, 4, 2)),
    ('one breaker, all strategies, all parameters', mc_cfg(1, ALL, [0, 1, 2], [2, 3], [0, 1, 3], [1, 3], [21, 42], [0, 1, 2], [1, 2], 6, 4, 2)),
    ('one breaker, three buckets / degenerate bucket counts, three in flight', mc_cfg(1, ALL, [1], [2, 3], [2], [3], [63, 20, 43], [0, 2], [1, 2, 3], 7, 4, 3)),
    ('two breakers on one resource', mc_cfg(2, ALL, [1], [2], [1], [1, 3], [21], [0, 2], [1, 2], 5, 4, 2)),
    ('two breakers, different windows', mc_cfg(2, ['eratio', 'ecount'], [1, 2], [3], [1], [3], [21, 42], [1], [1, 2], 6, 4, 2)),
    ('two resources', mc_cfg(3, ['slow', 'eratio'], [1], [2], [1], [1, 3], [21], [0, 1], [1, 2], 5, 4, 2)),
]

# spec-level mutants (vacuity guard): each must be rejected by the properties checked in S1
SPEC_MUTANTS = [
    ('roll-back sets a new deadline', 'IF i \\in w.made THEN [w.bs[i] EXCEPT !.st = Open]',
     'IF i \\in w.made THEN [w.bs[i] EXCEPT !.st = Open, !.retryAt = t + rs[i].timeout]'),
    ('minRequestAmount compared with >', 'IF T >= r.minAmt /\\ Reached(r, T, D)', 'IF T > r.minAmt /\\ Reached(r, T, D)'),
    ('statistics kept on close', 'THEN << NewBreaker, << Cb(HalfOpen, Closed, res, i) >> >>',
     'THEN << [NewBreaker EXCEPT !.ref = ref1], << Cb(HalfOpen, Closed, res, i) >> >>'),
    ('duplicate listener call', '<< Cb(Closed, Open, res, i) >> >>', '<< Cb(Closed, Open, res, i), Cb(Closed, Open, res, i) >> >>'),
    ('half-open admits everything', '[ok |-> r.probeNum > 0, b |-> b, probe |-> FALSE]', '[ok |-> TRUE, b |-> b, probe |-> FALSE]'),
    ('no roll-back of a blocked probe', 'IF i \\in w.made THEN [w.bs[i] EXCEPT !.st = Open] ELSE w.bs[i]', 'w.bs[i]'),
    ('deadline forgotten on re-open', 'IF bad THEN << [st |-> Open, retryAt |-> t + r.timeout', 'IF bad THEN << [st |-> Open, retryAt |-> b.retryAt'),
]
MUT_CFG = mc_cfg(2, ['slow', 'eratio'], [1], [2], [1], [1, 3], [21], [0, 2], [1, 2], 6, 4, 2)


def spec_mutants(c, which):
    src = open(os.path.join(vlib.SPEC, 'Breaker.tla')).read()
    for k in which:
        name, a, b = SPEC_MUTANTS[k]
        if a not in src:
            raise MachineryError('spec mutant "%s": pattern not found in Breaker.tla' % name)
        p = os.path.join(c.scratch, 'Breaker_mut%d.tla' % k)
        open(p, 'w').write(src.replace(a, b, 1))
        r = c.tlc('Breaker_MC', cfg_text=MUT_CFG, workers=4, timeout=600, files={'Breaker.tla': p}, count=False)
        if not r.violated:
            raise MachineryError('vacuity guard: spec mutant "%s" is NOT rejected by the properties of Breaker.tla (%s)' % (name, r.error or 'no error'))
        c.cov.setdefault('spec_mutants_rejected', []).append('%s -> %s' % (name, r.violated))
    c.log('vacuity guard: %d spec-level mutants rejected by the S1 properties' % len(which))


# ------------------------------------------------------------------------------------------------ S2
def maximal(hs):
    """drop histories that are proper prefixes of another history"""
    keys = sorted(json.dumps(x, sort_keys=True)[:-1] for x in hs)
    out = []
    for i, k in enumerate(keys):
        if i + 1 < len(keys) and keys[i + 1].startswith(k) and (keys[i + 1] == k or keys[i + 1][len(k)] == ','):
            continue
        out.append(json.loads(k + ']'))
    return out


def decorate(hist, tr, rng):
    s = [dict(o) for o in hist]
    s[0].update(tr=tr, unit=rng.choice([1, 100, 250, 500]), via=rng.choice(['all', 'res']))
    return s


def rule(strategy, thr, minAmt, timeout, I, nb, maxRt, probeNum):
    return dict(strategy=strategy, thr=list(thr), minAmt=minAmt, timeout=timeout, I=I, nb=nb, maxRt=maxRt, probeNum=probeNum)


GEOS = [(1000, 1), (2000, 2), (3000, 3), (1000, 2), (1000, 3), (1000, 0), (600, 3), (10000, 10), (500, 1), (1200, 4)]
RATIOS = [(0, 1), (1, 2), (1, 1), (1, 4), (1, 3), (3, 4), (1, 10), (2, 3)]
COUNTS = [(0, 1), (1, 1), (2, 1), (3, 1), (5, 1)]
FRACTIONAL = [(1, 2), (3, 2), (5, 2), (1, 4)]


def random_rule(rng, frac_p):
    s = rng.choice(ALL)
    I, nb = rng.choice(GEOS)
    if s == 'ecount':
        thr = rng.choice(FRACTIONAL) if rng.random() < frac_p else rng.choice(COUNTS)
    else:
        thr = rng.choice(RATIOS)
    return rule(s, thr, rng.choice([0, 1, 1, 2, 3, 5]), rng.choice([1, 200, 500, 1000, 3000, 1000, 3000, 4294, 4295, 5000, 10000, 60000]), I, nb,      # (incl. retry timeouts beyond 2^32 ns)
                rng.choice([0, 10, 50, 400, 0, 10, 50, 400, 59999, 60000, 90000]),     # (incl. calls slower than any RT bound of the statistics)
                rng.choice([0, 0, 1, 2, 3]))


def random_scenarios(c, n, first_tr, frac_p=0.12):
    """seeded random histories in milliseconds over production-like geometries"""
    rng = c.rng
    out = []
    for k in range(n):
        tr = first_tr + k
        nres = 1 if rng.random() < 0.8 else 2
        rules = {}
        for i in range(nres):
            rules['r%d' % (i + 1)] = [random_rule(rng, frac_p) for _ in range(rng.choice([1, 1, 2, 2, 3]))]
        allr = [r for rs in rules.values() for r in rs]
        s = [dict(op='new', tr=tr, unit=1, via=rng.choice(['all', 'res']), maxfl=3, rules=rules)]
        t, nid = 0, 0
        perr = rng.choice([0.1, 0.4, 0.7])
        for _ in range(rng.randint(15, 60)):
            x = rng.random()
            if x < 0.40:
                nid += 1
                s.append(dict(op='req', res=rng.choice(sorted(rules)), id=nid))
            elif x < 0.70:
                s.append(dict(op='done', sel=rng.choice([0, 0, 1, 2]), err=rng.random() < perr))
            else:
                r = rng.choice(allr)
                bl = r['I'] // r['nb'] if r['nb'] and r['I'] % r['nb'] == 0 else r['I']
                nxt = bl - t % bl
                d = rng.choice([0, 1, r['maxRt'], r['maxRt'] + 1, r['timeout'] - 1, r['timeout'], r['timeout'] + 1, nxt - 1, nxt, nxt + 1,
                                bl, r['I'] - 1, r['I'], r['I'] + bl, rng.randint(0, 2 * r['timeout']), rng.randint(0, r['I'])])
                d = max(0, d)
                s.append(dict(op='tick', d=d))
                t += d
        out.append(s)
    return out


def cycle_scenarios(c, n, first_tr):
    """seeded histories that deliberately walk several open -> half-open -> closed / re-opened cycles of one resource
    (bad completions until the first breaker should open, wait around the retry timeout, probes of which some fail,
    a straggler held open across the phases and completed at a random point)"""
    rng = c.rng
    out = []
    for k in range(n):
        r = random_rule(rng, 0.0)
        rules = [r] + ([random_rule(rng, 0.0)] if rng.random() < 0.3 else [])
        s = [dict(op='new', tr=first_tr + k, unit=1, via=rng.choice(['all', 'res']), rules=dict(r1=rules))]
        st = dict(nid=0)

        def req():
            st['nid'] += 1
            s.append(dict(op='req', res='r1', id=st['nid']))
            return st['nid']

        def finish(i, bad):
            if r['strategy'] == 'slow':
                s.append(dict(op='tick', d=r['maxRt'] + 1 if bad else rng.choice([0, 0, r['maxRt']])))
                s.append(dict(op='done', id=i, err=rng.random() < 0.2))
            else:
                s.append(dict(op='tick', d=rng.choice([0, 0, 1, 7])))
                s.append(dict(op='done', id=i, err=bad))

        straggler = None
        for cyc in range(rng.randint(2, 4)):
            if straggler is None and rng.random() < 0.5:
                straggler = req()
            for _ in range(max(r['minAmt'], 1) + rng.choice([0, 0, 1, 2])):
                finish(req(), rng.random() < 0.85)
            s.append(dict(op='tick', d=max(0, r['timeout'] + rng.choice([-1, 0, 0, 0, 1, 1, r['I']]))))
            for _ in range(max(r['probeNum'], 1) + rng.choice([0, 0, 1])):
                i = req()
                if straggler is not None and rng.random() < 0.3:
                    s.append(dict(op='done', id=straggler, err=rng.random() < 0.5))
                    straggler = None
                finish(i, rng.random() < 0.25)
        out.append(s)
    return out


# ------------------------------------------------------------------------------------------------ S3 + S4
STAT_KEYS = ['traces', 'req', 'blocked', 'rollbacks', 'done', 'stragglers', 'trans', 'opens', 'closes', 'reopens', 'probes']


def run_and_validate(c, drv, scns, tag, cfg=None, count=True):
    """returns ([(tr, line, expected+observed)], trace path)"""
    sp = os.path.join(c.scratch, tag + '.scn.ndjson')
    tp = os.path.join(c.scratch, tag + '.trace.ndjson')
    write_ndjson(sp, [o for s in scns for o in s])
    c.run([drv, sp, tp], timeout=600)
    nlines = sum(1 for _ in open(tp))
    mism, consumed, r = c.validate('Breaker_Trace', tp, nlines, cfg=cfg)
    if consumed != nlines:
        raise MachineryError('%s: trace validation consumed %d of %d lines (malformed trace?)\n%s' % (tag, consumed, nlines, r.out[-1500:]))
    if count:
        c.cov['traces_validated_against_impl'] += len(scns)
        c.cov['evaluations'] += nlines
        m = re.search(r'(?m)^"STATS (.*)"$', r.out)
        if not m:
            raise MachineryError('%s: no STATS line from Breaker_Trace' % tag)
        st = json.loads(json.loads('"' + m.group(1) + '"'))
        agg = c.cov.setdefault('impl_events', {k: 0 for k in STAT_KEYS})
        for k in STAT_KEYS:
            agg[k] += st.get(k, 0)
        c.log('S3/S4 %s: %d scenarios, %d events validated in %.0fs, %d mismatching traces' % (tag, len(scns), nlines, r.wall, len(mism)))
    if mism:
        lines = open(tp).read().splitlines()
        mism = [(tr, ln, exp + '  OBSERVED: ' + lines[ln - 1][:500]) for tr, ln, exp in mism]
    return mism, tp


def split_traces(lines):
    out, cur = [], None
    for l in lines:
        if l.get('op') == 'new':
            cur = []
            out.append(cur)
        cur.append(l)
    return out


def binding_selftest(c, tp):
    """corrupt one recorded observable in each of the first traces of a good trace file: every one must be rejected"""
    traces = split_traces([json.loads(l) for l in open(tp)])
    out, want, kinds = [], set(), {}
    for t in traces[:60]:
        cand = [e for e in t if e['op'] in ('req', 'done')]
        if cand:
            withcb = [e for e in cand if e['cb']]
            e = c.rng.choice(withcb) if withcb and c.rng.random() < 0.7 else c.rng.choice(cand)
            hows = ['addcb']
            if e['op'] == 'req':
                hows.append('flip')
                if not e['pass']:
                    hows.append('trig')
            if e['cb']:
                hows += ['dropcb', 'dupcb', 'tocb', 'dropcb', 'tocb']
            if e['op'] == 'done':
                hows.append('rt')
            how = c.rng.choice(hows)
            if how == 'flip':
                e['pass'] = not e['pass']
                e['bt'], e['trig'] = ('', 0) if e['pass'] else ('cb', 1)
            elif how == 'trig':
                e['trig'] += 1
            elif how == 'dropcb':
                e['cb'].pop(c.rng.randrange(len(e['cb'])))
            elif how == 'dupcb':
                e['cb'].append(dict(e['cb'][-1]))
            elif how == 'tocb':
                x = e['cb'][c.rng.randrange(len(e['cb']))]
                x['t'] = {'C': 'O', 'O': 'C', 'H': 'C'}[x['t']]
            elif how == 'rt':
                e['rt'] += 1
            else:
                e['cb'].append(dict(f='C', t='O', res='r1', b=1))
            kinds[how] = kinds.get(how, 0) + 1
            want.add(t[0]['tr'])
        out += t
    if len(want) < 10:
        raise MachineryError('binding self-test: only %d traces available' % len(want))
    cp = os.path.join(c.scratch, 'corrupt.ndjson')
    write_ndjson(cp, out)
    mism, consumed, r = c.validate('Breaker_Trace', cp, len(out))
    got = {m[0] for m in mism}
    if got != want:
        raise MachineryError('binding self-test failed: corrupted traces %s, rejected %s' % (sorted(want), sorted(got)))
    c.cov['binding_selftest'] = '%d traces with one corrupted observable (%s), all rejected' % (len(want), ', '.join('%s:%d' % kv for kv in sorted(kinds.items())))
    c.log('binding self-test: ' + c.cov['binding_selftest'])


def nontrivial_trs(tp):
    """trace numbers in which the real code performed at least one state transition (a listener callback fired)"""
    out, cur = set(), None
    for l in open(tp):
        e = json.loads(l)
        if e['op'] == 'new':
            cur = e['tr']
        elif e.get('cb'):
            out.add(cur)
    return out


def has_fractional_count(s):
    return any(r['strategy'] == 'ecount' and r['thr'][0] % r['thr'][1] != 0 for rs in s[0]['rules'].values() for r in rs)


def truncate(s, tp, tr, line):
    """the scenario up to (and including) the operation that produced trace line `line` (1-based, in file tp)"""
    e = json.loads(open(tp).read().splitlines()[line - 1])
    return s[:e['n'] + 1] if 'n' in e else s


def reductions(s):
    """candidate reductions of a scenario: one operation removed, one rule removed, an unused resource removed"""
    out = []
    for i in range(1, len(s)):
        out.append([s[0]] + s[1:i] + s[i + 1:])
    rules = s[0]['rules']
    used = {o['res'] for o in s[1:] if o['op'] == 'req'}
    for res in sorted(rules):
        if res not in used and len(rules) > 1:
            out.append([dict(s[0], rules={k: v for k, v in rules.items() if k != res})] + s[1:])
        if len(rules[res]) > 1:
            for j in range(len(rules[res])):
                rr = dict(rules)
                rr[res] = rules[res][:j] + rules[res][j + 1:]
                out.append([dict(s[0], rules=rr)] + s[1:])
    return out


def uniq_ids(s):
    """give every request its own id (TLC scenarios reuse a small pool of ids), so that removing a completion never makes a
    later request collide with an entry that is still open"""
    out, cur, n = [s[0]], {}, 0
    for o in s[1:]:
        o = dict(o)
        if o['op'] == 'req':
            n += 1
            cur[o['id']] = n
            o['id'] = n
        elif o['op'] == 'done' and 'id' in o:
            if o['id'] not in cur:
                continue
            o['id'] = cur.pop(o['id'])
        out.append(o)
    return out


def minimize(c, drv, s):
    """greedy reduction that keeps the trace mismatching (all candidates of a round are driven and validated in one run)"""
    if all('sel' not in o for o in s):
        s = uniq_ids(s)
    for rnd in range(16):
        cands = [[dict(t[0], tr=k + 1)] + t[1:] for k, t in enumerate(reductions(s))]
        if not cands:
            break
        mism, tp = run_and_validate(c, drv, cands, 'min%d' % rnd, count=False)
        if not mism:
            break
        best = None
        for tr, line, _ in mism:
            t = truncate(cands[tr - 1], tp, tr, line)
            size = len(t) * 10 + sum(len(v) for v in t[0]['rules'].values())
            if best is None or size < best[0]:
                best = (size, t)
        s = [dict(best[1][0], tr=s[0]['tr'])] + best[1][1:]
    return s


def handle_mismatches(c, drv, scns, mism, tp, tag):
    by_tr = {s[0]['tr']: s for s in scns}
    items = []
    for tr, line, exp in mism:
        s = by_tr[tr]
        items.append((truncate(s, tp, tr, line), line, exp))
    # classification of the already-found mismatches: does reading error-count thresholds truncated toward zero explain it?
    explained = set()
    cand = [it[0] for it in items if has_fractional_count(it[0])]
    if cand:
        m2, _ = run_and_validate(c, drv, cand, tag + '-diag', cfg='Breaker_TraceDiag', count=False)
        explained = {s[0]['tr'] for s in cand} - {m[0] for m in m2}
    groups = {}
    for it in items:
        k = KEY_TRUNC if it[0][0]['tr'] in explained else None
        groups.setdefault(k, []).append(it)
    mg = c.cov.setdefault('mismatch_groups', {})
    for k, v in groups.items():
        mg[str(k or 'unexplained')] = mg.get(str(k or 'unexplained'), 0) + len(v)
    for key, its in groups.items():
        its.sort(key=lambda it: len(it[0]))
        for k, (s, line, exp) in enumerate(its[:1] if key else its[:3]):
            if key and key in c.known_seen or key and any(key in v[0] for v in c.violations):
                continue
            if k == 0:
                s = minimize(c, drv, s)
            rp = c.save_replay('%s-tr%d.ndjson' % (tag, s[0]['tr']), s)
            ok = 0
            last = None
            for i in range(2):    # confirm twice from the replay file in fresh processes
                m2, _ = run_and_validate(c, drv, [read_ndjson(rp)], 'confirm%d' % i, count=False)
                ok += 1 if m2 else 0
                last = m2[0][2] if m2 else last
            if ok < 2:
                c.inconclusive.append('mismatch of %s trace %d did not reproduce from its replay file (%d/2)' % (tag, s[0]['tr'], ok))
                continue
            if key:
                # the classification must also hold for the minimised scenario
                m3, _ = run_and_validate(c, drv, [read_ndjson(rp)], 'confirm-diag', cfg='Breaker_TraceDiag', count=False)
                if m3:
                    key = None
            if key and c.is_known(key):
                c.known(key, c.kf[key]['description'])
            elif key:
                c.violation('[%s] %s (%d scenarios of this run show it); minimal scenario %s; property expects %s' % (
                    key, WHAT_TRUNC, len(its), json.dumps(s)[:600], last[:300]), rp)
            else:
                c.violation('real code deviates from the breaker machine; scenario %s; property expects %s' % (json.dumps(s)[:600], last[:400]), rp)


def check(c, tier, replay):
    drv = c.build('c03')
    if replay:
        s = read_ndjson(replay)
        mism, tp = run_and_validate(c, drv, [s], 'replay')
        if mism:
            key = None
            if has_fractional_count(s):
                m2, _ = run_and_validate(c, drv, [s], 'replay-diag', cfg='Breaker_TraceDiag', count=False)
                key = None if m2 else KEY_TRUNC
            if key and c.is_known(key):
                c.known(key, c.kf[key]['description'])
            else:
                c.violation('replayed scenario deviates from the breaker machine%s: property expects %s' % (
                    ' [%s]' % key if key else '', mism[0][2][:500]), replay)
        c.cov['states'] = c.cov['transitions'] = 1
        c.cov['distinct_nontrivial'] = 1
        c.sample(s[:8])
        return
    thorough = tier == 'thorough'
    # S1 ---------------------------------------------------------------------------------
    dev_skip = os.environ.get('VERIF_C03_SKIP_S1') == '1'    # development aid for code-mutant runs; makes the run inconclusive
    if dev_skip:
        c.inconclusive.append('S1 skipped (VERIF_C03_SKIP_S1)')
    for what, cfg in ([] if dev_skip else (MC_THOROUGH if thorough else MC_QUICK)):
        # (per-action coverage only in the thorough tier: it slows TLC down noticeably)
        r = c.model_check('Breaker_MC', cfg_text=cfg, workers=8, timeout=3000, args=['-coverage', '1'] if thorough else [])
        c.cov['tlc_runs'][-1]['what'] = what
        acts = c.cov.setdefault('s1_action_coverage', {})
        for name, n in re.findall(r'(?m)^<(\w+) line \d+, col \d+ to line \d+, col \d+ of module Breaker(?: \([\d ]+\))?>: (\d+):\d+', r.out):
            if name != 'Init':
                name = 'Request' if name == 'Next' else name
                acts[name] = acts.get(name, 0) + int(n)
        if not r.completed:
            # a design-level counterexample is a lead, not a verdict (DESIGN section 6)
            c.inconclusive.append('Breaker.tla (%s): %s violated - the spec no longer states a consistent machine' % (what, r.violated or 'deadlock'))
    c.cov['exhaustive'] = True
    if thorough and not dev_skip:
        for name in ('Request', 'Complete', 'StragglerCompletesWhileHalfOpen', 'Tick'):
            if c.cov.get('s1_action_coverage', {}).get(name, 0) == 0:
                c.inconclusive.append('S1 is vacuous: action %s never produced a new state in any bounded instance' % name)
    if not dev_skip:
        spec_mutants(c, range(len(SPEC_MUTANTS)) if thorough else [0, 1, 3])
    # S2 ---------------------------------------------------------------------------------
    scns, tr = [], 0
    gens = [mc_cfg(2, ['slow', 'eratio'], [1], [2], [1], [1, 3], [21], [0], [1, 2], 4, 3, 2, check=False, extra='ACTION_CONSTRAINT Emit\n')]
    if thorough:
        gens += [mc_cfg(1, ALL, [0, 1, 2], [2, 3], [1, 3], [3], [42], [0, 2], [1, 2], 5, 3, 2, check=False, extra='ACTION_CONSTRAINT Emit\n'),
                 mc_cfg(2, ['eratio', 'ecount'], [1], [2], [1], [1, 3], [21], [1, 2], [1, 2], 5, 4, 2, check=False, extra='ACTION_CONSTRAINT Emit\n')]
    cap = 1200 if not thorough else 15000
    for cfg in gens:
        r = c.tlc('Breaker_MC', cfg_text=cfg, workers=4, timeout=1500, count=False)
        if r.error or not r.completed:
            raise MachineryError('scenario generation failed: %s' % (r.error or r.violated))
        hs = r.json_prints()
        keep = maximal(hs)
        nmax = len(keep)
        if len(keep) > cap:
            keep = c.rng.sample(keep, cap)
        for hh in keep:
            tr += 1
            scns.append(decorate(hh, tr, c.rng))
        c.log('S2 transition cover: %d transitions -> %d maximal scenarios, %d kept' % (len(hs), nmax, len(keep)))
    cover_n = len(scns)
    sims = [(1, ALL, [0, 1, 2], [0, 1, 2, 3, 4], [0, 1, 3], [1, 3], [21, 42, 63, 20, 43], [0, 1, 2], 3),
            (2, ALL, [1, 2], [2, 3], [1, 2], [1, 3], [21, 42], [0, 1, 2], 3),
            (3, ALL, [1], [2], [1], [1, 3], [21, 42], [0, 1], 2)]
    for fam, strat, ratio, count, mins, tos, geos, pns, fl in sims:
        cfg = mc_cfg(fam, strat, ratio, count, mins, tos, geos, pns, [1, 2, 3], 40, 14, fl, check=False, extra='ACTION_CONSTRAINT Emit\n')
        num = 120 if not thorough else 1500
        r = c.tlc('Breaker_MC', cfg_text=cfg, workers=1, timeout=1500, count=False,
                  args=['-simulate', 'num=%d' % num, '-depth', '32', '-seed', str(c.seed)])
        if r.error and r.error != 'timeout' and not r.json_prints():
            raise MachineryError('TLC simulation failed: %s\n%s' % (r.error, r.out[-1500:]))
        # (TLC also prints the unchosen siblings of every step: keep the behaviours proper)
        keep = [x for x in maximal(r.json_prints()) if len(x) >= 16]
        for hh in keep:
            tr += 1
            scns.append(decorate(hh, tr, c.rng))
        c.log('S2 TLC simulation family %d: %d behaviours' % (fam, len(keep)))
    nrand = 500 if not thorough else 8000
    rs = random_scenarios(c, nrand, tr + 1)
    tr += nrand
    ncyc = 200 if not thorough else 3000
    cs = cycle_scenarios(c, ncyc, tr + 1)
    tr += ncyc
    # S3 + S4 ----------------------------------------------------------------------------
    nontriv = set()
    selftested = False
    for tag, group in (('tlc', scns), ('rand', rs), ('cycle', cs)):
        for i in range(0, len(group), 3000):
            part = group[i:i + 3000]
            mism, tp = run_and_validate(c, drv, part, '%s%d' % (tag, i))
            nt = nontrivial_trs(tp)
            by_tr = {s[0]['tr']: s for s in part}
            nontriv |= {json.dumps([by_tr[t][0]['rules'], by_tr[t][0]['unit']] + by_tr[t][1:], sort_keys=True) for t in nt}
            if not selftested and tag == 'tlc':
                # use only good traces for the self-test
                bad = {m[0] for m in mism}
                good = os.path.join(c.scratch, 'good.ndjson')
                keep, cur = [], None
                for l in open(tp):
                    e = json.loads(l)
                    if e['op'] == 'new':
                        cur = e['tr']
                    if cur not in bad:
                        keep.append(e)
                write_ndjson(good, keep)
                binding_selftest(c, good)
                selftested = True
            c.cov['conformance_mismatches'] += len(mism)
            if mism:
                handle_mismatches(c, drv, part, mism, tp, tag)
    c.cov['distinct_nontrivial'] = len(nontriv)
    c.cov['rule'] = ('scenarios = sample of the transition cover of a bounded two-breaker instance of Breaker.tla (%d) + TLC random '
                     'simulations of the one-breaker / two-breaker / two-resource families + seeded random millisecond histories over '
                     'production geometries + seeded multi-cycle (open / half-open / closed) histories; non-trivial = distinct (rules, operations) in whose execution the real code performed at '
                     'least one breaker state transition (a StateChangeListener callback fired)' % cover_n)
    ev = c.cov.get('impl_events', {})
    for k in ('stragglers', 'rollbacks', 'closes', 'reopens', 'blocked'):
        if not thorough and k == 'rollbacks':
            continue
        if ev.get(k, 0) == 0:
            c.inconclusive.append('no "%s" event in any validated execution: the scenario set does not exercise the property' % k)
    c.sample(scns[len(scns) // 2][:10])
    c.sample(rs[0][:10])
    c.sample(cs[0][:14])
    c.assumptions += ['sequential executions only (one API call at a time; entries overlap in time but calls do not): the concurrent clauses belong to C12',
                      'thresholds are rationals with small denominators passed as float64(num)/float64(den); every ratio the code computes is either '
                      'exactly that double or at least 1/(total*den) away from it, so the 1e-8 tolerance of util.Float64Equals never decides',
                      'CurrentState() of the breakers in force is not reachable through the public API (getBreakersOfResource is unexported): states are '
                      'observed through the listener callbacks and the admission decisions only',
                      'time is non-decreasing; rules are loaded once per scenario into fresh resources (rule reloads belong to C13/C14)',
                      'TLC model checking is exhaustive only for the bounded instances listed in tlc_runs']


main('C03', check)
