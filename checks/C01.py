"""C01 - Entry/Exit accounting is conserved and correctly attributed.

S1  TLC checks EntryChain.tla (instance "acct": fixed accounting chain = real prepare slot, scripted prepare slot,
    scripted rule slot, real stat slot, recording stat slot; two resources, inbound/outbound, batch counts, scripted
    outcome pass / block / panic in prepare / panic in rule check, TraceError, Exit with/without error, repeated Exit,
    late TraceError, ticks across bucket / view / whole-array boundaries) against Conservation, Gauge, Quiescent,
    CompletionOnce, CompletedTokens and the action properties LateCallsInert, BlockErrStable.
S2  scenarios: (a) one per transition of a smaller instance, (b) TLC random simulation of a larger instance,
    (c) seeded random histories on custom chains (mode "stat": scripted slots around the real statistic slots) and on the
    default global chain (mode "global": isolation rule for blocks, hot-parameter rule + unhashable argument for a
    built-in rule-check panic), with nesting, any exit order, late calls while other entries are live, argument lists,
    (d) a few directed histories, (e) free-running many-goroutine stress phases judged at quiescence.
S3  harness/cmd/c01 replays them on the real code at BaseMs+t and records, after every operation, gauge and sums of every
    resource node and of the inbound node (default view and whole array), the recorder's call log, Err / Args / batch /
    resource / start time of every live entry.
S4  EntryChain_Trace.tla (TLC) judges every record with the operators of EntryChainOps.tla / WindowRef.tla.
"""
import json, os, sys
import vlib, eclib
from vlib import main, write_ndjson, read_ndjson, MachineryError
from eclib import mc_cfg, ACCT_DEFAULTS, maximal, run_and_validate, validate_lines, diff_components

K_PANIC = 'C01/rule-check-panic-admitted/completion-without-pass-gauge-negative'
K_LATE = 'C01/late-exit-or-trace-error-on-exited-entry/mutates-recycled-context-of-live-entry'
K_ARGS = 'C01/entry-args/alias-pooled-options-array-overwritten-by-next-entry'
WHAT = {
    K_PANIC: 'an entry admitted because a prepare / rule-check slot panicked (e.g. hot-parameter rule fed an unhashable argument) is never counted '
             'as passed, yet its Exit records a completion (+error, +rt) and decrements the gauge: complete without pass, concurrency -1 with nothing in flight',
    K_LATE: 'Exit(WithError) / TraceError on an already exited entry writes the error into the recycled EntryContext that now belongs to another live '
            'entry (the error is later counted as that entry\'s error)',
    K_ARGS: 'Input.Args of a live entry aliases the backing array of the pooled EntryOptions and is overwritten by the next Entry(WithArgs ...)',
}
NODES = ['r1', 'r2', '_in']
TIMEMAPS = [{1: 250, 2: 500, 4: 1000, 10: 10500}, {1: 1, 2: 499, 4: 1001, 10: 10000}, {1: 499, 2: 501, 4: 999, 10: 9501}]


def acct_slots(rng):
    return [dict(op='slot', k='pre', ord=1, beh='real'), dict(op='slot', k='pre', ord=2, beh='script'),
            dict(op='slot', k='rule', ord=1, beh='script', bm=rng.choice(['fresh', 'ctx', 'own'])),
            dict(op='slot', k='stat', ord=1, beh='real'), dict(op='slot', k='stat', ord=2, beh='pass')]


def decorate(hist, tr, rng):
    """TLC history of the acct instance -> driver scenario (real times, the accounting chain, optional arguments)"""
    tm = rng.choice(TIMEMAPS)
    s = [dict(op='new', tr=tr, mode='stat', t=rng.choice([1, 100, 499]), nodes=NODES)] + acct_slots(rng)
    with_args = rng.random() < 0.25
    for o in hist:
        o = dict(o)
        if o['op'] == 'tick':
            o['d'] = tm.get(o['d'], o['d'] * 250)
        if o['op'] == 'entry' and with_args and rng.random() < 0.7:
            o['args'] = rng.choice([['a'], ['a', 'b'], ['c']])
        s.append(o)
    return s


def pick_tick(rng, t):
    to_next = 500 - t % 500
    return max(0, rng.choice([0, 1, 7, to_next - 1, to_next, to_next + 1, 499, 500, 501, 1000, 1500, 9500, 10000, 10500, 25000, 59999, 60000, 60001, 130000, rng.randint(0, 3000)]))


def random_ops(rng, s, mode, with_args, n):
    """append n random operations (Entry / TraceError / Exit incl. repeated and late ones / ticks)"""
    t = s[0]['t']
    nent, live, done = 0, [], []
    for _ in range(n):
        x = rng.random()
        if x < 0.38 or not (live or done):
            nent += 1
            o = dict(op='entry', res=rng.choice(['r1', 'r1', 'r2']), b=rng.choice([0, 1, 1, 1, 2, 5]), inb=rng.random() < 0.5, xh='')
            if rng.random() < 0.3:
                o['rt'] = rng.choice([0, 1, 2, 3, 4])       # the same resource entered with different resource types
            if mode == 'stat':
                o['so'] = rng.choices(['pass', 'block', 'panicPre', 'panicRule'], [6, 3, 1, 1])[0]
                if with_args and rng.random() < 0.6:
                    o['args'] = rng.choice([['a'], ['a', 'b'], ['c'], ['b', 'c', 'a']])
            else:
                o['so'] = 'obs'
                y = rng.random()
                if y < 0.15:
                    o['args'] = rng.choice([['UNH'], ['UNH', 'a']])
                elif with_args and y < 0.7:
                    o['args'] = rng.choice([['a'], ['a', 'b'], ['c'], ['a', 'UNH']])
            s.append(o)
            live.append(nent)       # (a blocked id stays here: the driver records a no-op for it)
        elif x < 0.50 and live:
            s.append(dict(op='terr', id=rng.choice(live), e=rng.choice(['x', 'y'])))
        elif x < 0.72 and live:
            i = rng.choice(live)
            live.remove(i)
            done.append(i)
            s.append(dict(op='exit', id=i, e=rng.choice(['', '', 'x', 'w'])))
        elif x < 0.80 and done:
            s.append(dict(op='exit', id=rng.choice(done), e=rng.choice(['', 'late'])))
        elif x < 0.85 and done:
            s.append(dict(op='terr', id=rng.choice(done), e='late2'))
        else:
            d = pick_tick(rng, t)
            t += d
            s.append(dict(op='tick', d=d))
    return s


def random_stat(c, tr):
    rng = c.rng
    s = [dict(op='new', tr=tr, mode='stat', t=rng.choice([1, 100, 499, 500, 777]), nodes=NODES, **({'empty': 'r2'} if rng.random() < 0.12 else {}))]
    slots = [dict(op='slot', k='pre', ord=1000, beh='real'), dict(op='slot', k='stat', ord=1000, beh='real')]
    for _ in range(rng.choice([1, 1, 2])):       # scripted prepare slot before / after / tied with the real one
        slots.append(dict(op='slot', k='pre', ord=rng.choice([500, 1000, 2000]), beh='script'))
    for _ in range(rng.choice([1, 1, 2])):
        slots.append(dict(op='slot', k='rule', ord=rng.choice([1, 2]), beh='script', bm=rng.choice(['fresh', 'ctx', 'own'])))
    for _ in range(rng.choice([1, 1, 2])):
        slots.append(dict(op='slot', k='stat', ord=rng.choice([500, 1000, 2000]), beh='pass'))
    rng.shuffle(slots)
    s += slots
    return random_ops(rng, s, 'stat', rng.random() < 0.25, rng.randint(6, 22))


def random_global(c, tr):
    rng = c.rng
    s = [dict(op='new', tr=tr, mode='global', t=rng.choice([1, 100, 499, 500]), nodes=NODES,
              iso={'r1': rng.choice([1, 2, 3])} if rng.random() < 0.8 else {}, hot=rng.choice([['r1'], ['r1', 'r2'], ['r2']]),
              **({'empty': 'r2'} if rng.random() < 0.12 else {}))]
    return random_ops(rng, s, 'global', rng.random() < 0.25, rng.randint(6, 20))


def directed(first_tr):
    """short histories aimed at the clauses that pooled objects make fragile (they are ordinary scenarios)"""
    def chain():
        return [dict(op='slot', k='pre', ord=1, beh='real'), dict(op='slot', k='pre', ord=2, beh='script'),
                dict(op='slot', k='rule', ord=1, beh='script', bm='ctx'),
                dict(op='slot', k='stat', ord=1, beh='real'), dict(op='slot', k='stat', ord=2, beh='pass')]
    new = lambda tr, mode='stat', **kw: dict(op='new', tr=tr, mode=mode, t=100, nodes=NODES, **kw)
    E = lambda res='r1', so='pass', b=1, inb=True, **kw: dict(op='entry', res=res, b=b, inb=inb, so=so, xh='', **kw)
    out = []
    tr = first_tr
    # rule check panics, request admitted, exited later
    for so in ('panicRule', 'panicPre'):
        out.append([new(tr)] + chain() + [E(so=so), dict(op='tick', d=30), dict(op='exit', id=1, e='')]); tr += 1
    out.append([new(tr, 'global', iso={}, hot=['r1']), E(so='obs', args=['UNH']), dict(op='exit', id=1, e='')]); tr += 1
    out.append([new(tr, 'global', iso={'r1': 1}, hot=['r1']), E(so='obs', args=['a']), E(so='obs', args=['UNH']), E(so='obs', inb=False, res='r2'),
                dict(op='exit', id=1, e=''), E(so='obs', args=['UNH']), dict(op='exit', id=4, e='x'), dict(op='exit', id=3, e='')]); tr += 1
    # late calls on an exited entry while another entry is live
    out.append([new(tr)] + chain() + [E(), dict(op='exit', id=1, e=''), E(res='r2'), dict(op='exit', id=1, e='late'),
                                       dict(op='tick', d=10), dict(op='exit', id=2, e='')]); tr += 1
    out.append([new(tr)] + chain() + [E(), dict(op='exit', id=1, e='x'), E(res='r2', inb=False), dict(op='terr', id=1, e='late2'),
                                       dict(op='exit', id=2, e='')]); tr += 1
    out.append([new(tr, 'global', iso={}, hot=[]), E(so='obs'), dict(op='exit', id=1, e=''), E(so='obs', res='r2'), dict(op='exit', id=1, e='late'),
                dict(op='exit', id=2, e='')]); tr += 1
    # argument lists of nested entries
    out.append([new(tr)] + chain() + [E(args=['a', 'b']), E(res='r2', args=['c']), dict(op='exit', id=2, e=''), dict(op='exit', id=1, e='')]); tr += 1
    out.append([new(tr, 'global', iso={}, hot=['r1']), E(so='obs', args=['a', 'b']), E(so='obs', args=['c']), dict(op='exit', id=1, e=''),
                dict(op='exit', id=2, e='')]); tr += 1
    # plain nesting / exit order / repeated exit / window roll-over: must hold on any tree
    out.append([new(tr)] + chain() + [E(b=2), E(res='r2', inb=False, b=3), E(so='block'), dict(op='tick', d=400), dict(op='terr', id=1, e='x'),
                                       dict(op='exit', id=1, e=''), dict(op='exit', id=1, e=''), dict(op='tick', d=700), dict(op='exit', id=2, e='y'),
                                       dict(op='tick', d=10000), dict(op='exit', id=2, e='')]); tr += 1
    return out


def stress_scenarios(first_tr, seed, thorough):
    out, tr = [], first_tr
    w, it = (8, 300) if not thorough else (16, 3000)
    for mode, pct in (('stat', 0), ('global', 0), ('stat', 5), ('global', 5)):
        s = [dict(op='new', tr=tr, mode=mode, t=100, nodes=NODES, **({'iso': {'r1': 3}, 'hot': ['r1', 'r2']} if mode == 'global' else {}))]
        if mode == 'stat':
            s += [dict(op='slot', k='pre', ord=1000, beh='real'), dict(op='slot', k='pre', ord=2000, beh='script'),
                  dict(op='slot', k='rule', ord=1, beh='script', bm='ctx'),
                  dict(op='slot', k='stat', ord=1000, beh='real'), dict(op='slot', k='stat', ord=2000, beh='pass')]
        s.append(dict(op='entry', res='r1', b=1, inb=True, so='pass' if mode == 'stat' else 'obs', xh=''))   # one entry stays live across the phase
        s.append(dict(op='stress', workers=w, iters=it, seed=seed * 10 + tr % 7, panic_pct=pct, res=['r1', 'r2']))
        out.append(s)
        tr += 1
    # more distinct resources than any internal bound of the library (10 000): each is accounted on its own node and on the inbound total
    s = [dict(op='new', tr=tr, mode='stat', t=100, nodes=NODES),
         dict(op='slot', k='pre', ord=1000, beh='real'), dict(op='slot', k='rule', ord=1, beh='script', bm='ctx'),
         dict(op='slot', k='stat', ord=1000, beh='real'), dict(op='slot', k='stat', ord=2000, beh='pass'),
         dict(op='manyres', n=10050 if not thorough else 25000, b=2)]
    out.append(s)
    tr += 1
    # first-entry race: several goroutines enter a never-seen resource at the same instant (the statistic node is created on demand)
    for mode in ('stat', 'global'):
        s = [dict(op='new', tr=tr, mode=mode, t=100, nodes=NODES, **({'iso': {}, 'hot': []} if mode == 'global' else {}))]
        if mode == 'stat':
            s += [dict(op='slot', k='pre', ord=1000, beh='real'), dict(op='slot', k='rule', ord=1, beh='script', bm='ctx'),
                  dict(op='slot', k='stat', ord=1000, beh='real'), dict(op='slot', k='stat', ord=2000, beh='pass')]
        s.append(dict(op='firstrace', rounds=200 if not thorough else 3000, workers=8))
        out.append(s)
        tr += 1
    return out


def nontrivial(s):
    """a history that exercises a conservation / attribution clause beyond a single Entry -> Exit pair"""
    ent = [o for o in s if o['op'] == 'entry']
    if any(o.get('so') in ('block', 'panicPre', 'panicRule') or 'UNH' in (o.get('args') or []) for o in ent):
        return True
    seen = set()
    for o in s:
        if o['op'] == 'exit':
            if o['id'] in seen:
                return True          # repeated / late exit
            seen.add(o['id'])
        if o['op'] in ('stress', 'firstrace', 'manyres'):
            return True
    return len(ent) >= 2 and any(o['op'] == 'tick' and o['d'] > 0 for o in s)


def binding_selftest(c, tp):
    """corrupt one recorded observable in each of the first traces of a good trace file: every one must be rejected"""
    lines = [json.loads(l) for l in open(tp)]
    groups = []
    for e in lines:
        if e['op'] == 'new':
            if len(groups) >= 40:
                break
            groups.append([])
        groups[-1].append(e)
    out, want, kinds = [], set(), {}
    for gl in groups:
        cands = {}
        for i, e in enumerate(gl):
            st = e.get('st')
            if not st or e['op'] in ('stress', 'firstrace', 'manyres'):
                continue
            if st.get('nodes'):
                cands.setdefault('sum', []).append(i)
                cands.setdefault('conc', []).append(i)
            if st.get('live'):
                cands.setdefault('err', []).append(i)
                cands.setdefault('args', []).append(i)
            if e['op'] == 'exit' and any(x.get('m') == 'completed' for x in e['calls']):
                cands.setdefault('compl-rt', []).append(i)
        if not cands:
            out += gl
            continue
        kind = c.rng.choice(sorted(cands))
        e = gl[c.rng.choice(cands[kind])]
        st = e['st']
        if kind == 'sum':
            n = c.rng.choice(sorted(st['nodes']))
            st['nodes'][n][c.rng.choice(['sum', 'all'])][c.rng.choice(['pass', 'block', 'complete', 'error', 'rt'])] += 1
        elif kind == 'conc':
            st['nodes'][c.rng.choice(sorted(st['nodes']))]['conc'] += c.rng.choice([-1, 1])
        elif kind == 'err':
            c.rng.choice(st['live'])['err'] = 'zz'
        elif kind == 'args':
            c.rng.choice(st['live'])['args'].append('q')
        elif kind == 'compl-rt':
            [x for x in e['calls'] if x.get('m') == 'completed'][0]['rt'] += 1
        kinds[kind] = kinds.get(kind, 0) + 1
        want.add(gl[0]['tr'])
        out += gl
    got = validate_lines(c, out, 'corrupt')
    if got != want:
        raise MachineryError('binding self-test failed: corrupted traces %s, rejected %s' % (sorted(want), sorted(got)))
    c.cov['binding_selftest'] = '%d corrupted traces (%s), all rejected' % (len(want), ', '.join('%s x%d' % kv for kv in sorted(kinds.items())))
    c.log('binding self-test: ' + c.cov['binding_selftest'])


def panic_admitted(scn, eid):
    """was entry number eid of the scenario admitted through a (scripted or built-in) rule-check / prepare panic?"""
    new = scn[0]
    n = 0
    for o in scn:
        if o['op'] == 'entry':
            n += 1
            if n == eid:
                if new['mode'] == 'global':
                    return bool(o.get('args')) and o['args'][0] == 'UNH' and o['res'] in (new.get('hot') or [])
                return o.get('so') in ('panicPre', 'panicRule')
    return False


def exited_before(scn, line_op_index, eid):
    return any(o['op'] == 'exit' and o['id'] == eid for o in scn[:line_op_index])


def classify(c, scn, obs, exp, op_index):
    """known-finding keys for a mismatch, from its minimal failing pattern: every differing component must be explained by a
    known pattern, otherwise None (= not a known pattern).  Used only to label confirmed mismatches, never for the verdict."""
    comps = diff_components(obs, exp)
    op = obs.get('op')
    if op == 'stress':
        # the pattern at quiescence: on every node the surplus of completed over passed tokens is at most the number of
        # panic-admitted entries (batch 1 each) and the gauge is short by exactly that surplus; nothing else is off
        if obs.get('panic_pct', 0) > 0 and obs.get('escaped') == 0 and obs['rec']['dup'] == 0 and obs['rec']['miss'] == 0:
            try:
                e = json.loads(exp)
            except Exception:
                return None
            nodes, hit = obs['st']['nodes'], False
            for n, q in e['req'].items():
                sm = nodes[n]['sum']
                surplus = sm['complete'] - sm['pass']
                # (one entry of one passed token was live across the phase on r1 / _in: it is in pass, not in complete)
                live_tokens = e['conc'].get(n, 0)
                surplus += live_tokens
                if surplus < 0 or surplus > q['reqp'] or e['conc'][n] - nodes[n]['conc'] != surplus:
                    return None
                if not (q['req'] <= sm['pass'] + sm['block'] - live_tokens <= q['req'] + q['reqp']):
                    return None
                hit = hit or surplus > 0
            return (K_PANIC,) if hit else None
        return None
    if not comps:
        return None
    late_err_before = False      # an error was handed to an entry that had already been exited (this op included)
    done = set()
    for o in scn[:op_index + 1]:
        if o['op'] in ('exit', 'terr') and o['id'] in done and o.get('e'):
            late_err_before = True
        if o['op'] == 'exit':
            done.add(o['id'])
    keys = set()
    for comp in comps:
        if comp == 'live.args' and op == 'entry':
            keys.add(K_ARGS)
        elif comp == 'live.err' and late_err_before and op in ('entry', 'exit', 'terr'):
            keys.add(K_LATE)
        elif comp in ('nodes.conc', 'nodes.complete', 'nodes.error', 'nodes.rt', 'compl') and op == 'exit' \
                and panic_admitted(scn, obs['id']) and not exited_before(scn, op_index, obs['id']):
            keys.add(K_PANIC)
        else:
            return None
    return tuple(sorted(keys))


def op_index_of(scn, line_in_trace):
    """index in the scenario of the operation that produced the given trace line (global mode adds one 'slot' line)"""
    extra = 1 if scn[0]['mode'] == 'global' else 0
    return line_in_trace - extra if line_in_trace > 0 else 0


def describe(obs, exp, line, tr):
    return ('accounting observable differs from the property at line %d of trace %d (op %s%s): differing components %s; expected %s'
            % (line, tr, obs.get('op'), ' id %s' % obs['id'] if 'id' in obs else '', sorted(diff_components(obs, exp)), exp[:600]))


def handle_mismatches(c, drv, found, ordered=None):
    """found = [(tag, scenario, line_in_file, first_line_of_trace, expected, observed)].  Group the mismatching traces by failing
    pattern; replay the shortest scenario of every group alone, twice, in fresh processes; the verdict and its label come from
    what the replay shows (both replays must fail at the same operation)."""
    groups = {}
    for tag, s, line, first, exp, obs in found:
        keys = classify(c, s, obs, exp, op_index_of(s, line - first))
        groups.setdefault(keys or ('other', s[0]['tr']), []).append((len(s), s[0]['tr'], tag, s))
    nother, reported = 0, set()
    for keys0, items in sorted(groups.items(), key=lambda kv: str(kv[0])):
        if keys0[0] == 'other':
            nother += 1
            if nother > 12:
                continue
        items.sort(key=lambda x: x[:2])
        _, tr, tag, s = items[0]
        rp = c.save_replay('%s-tr%d.ndjson' % (tag, tr), s)
        runs = []
        for i in range(2):
            m2, _ = run_and_validate(c, drv, [read_ndjson(rp)], 'confirm%d' % i)
            runs.append(m2[0] if m2 else None)
        if not runs[0] or not runs[1] or runs[0][1] != runs[1][1]:
            # not reproducible alone: the failure may need the pooled objects an earlier scenario left behind
            got = eclib.confirm_behind_predecessors(c, drv, (ordered or {}).get(tag, []), tr) if tag != 'stress' else None
            if got:
                lines, (_, line, exp, obs) = got
                rp = c.save_replay('%s-tr%d-with-predecessors.ndjson' % (tag, tr), lines)
                if ('pooled', tag) not in reported:
                    reported.add(('pooled', tag))
                    c.violation('reproduced only behind its predecessor scenarios (state left in pooled objects): ' + describe(obs, exp, line, tr), rp)
                continue
            c.inconclusive.append('mismatch of %s trace %d did not reproduce from its replay file (%s)' % (
                tag, tr, [r and r[1] for r in runs]))
            continue
        _, line, exp, obs = runs[1]
        keys = classify(c, s, obs, exp, op_index_of(s, line - 1))
        if keys:
            c.cov.setdefault('mismatch_groups', {})['+'.join(keys)] = len(items) + c.cov.get('mismatch_groups', {}).get('+'.join(keys), 0)
            c.log('%d mismatching traces show the pattern %s; minimal: %s' % (len(items), ' + '.join(keys), rp))
        if keys and all(c.is_known(k) for k in keys):
            for k in keys:
                c.known(k, c.kf[k]['description'])
        elif not keys or keys not in reported:
            reported.add(keys)
            what = ''.join(WHAT[k] + ' [' + k + ']; ' for k in (keys or ()) if not c.is_known(k)) + describe(obs, exp, line, tr)
            c.violation(what, rp)


def first_lines(tp):
    out = {}
    for i, l in enumerate(open(tp), 1):
        if l.startswith('{"mode"') or '"op":"new"' in l:
            e = json.loads(l)
            if e.get('op') == 'new':
                out[e['tr']] = i
    return out


def check(c, tier, replay):
    drv = c.build('c01')
    if replay:
        s = read_ndjson(replay)
        mism, tp = run_and_validate(c, drv, [s], 'replay')
        if mism:
            tr, line, exp, obs = mism[0]
            keys = classify(c, s, obs, exp, op_index_of(s, line - 1))
            if keys and all(c.is_known(k) for k in keys):
                for k in keys:
                    c.known(k, c.kf[k]['description'])
            else:
                c.violation('replayed scenario violates the property: ' + ''.join(WHAT[k] + ' [' + k + ']; ' for k in (keys or ())) + describe(obs, exp, line, tr), replay)
        c.cov['states'] = c.cov['transitions'] = 1
        c.sample(s[:8])
        return
    thorough = tier == 'thorough'
    # S1 ---------------------------------------------------------------------------------
    s1 = dict(MaxOps=6, Steps='<-MCStepsQ') if thorough else dict(Steps='<-MCStepsQ')
    r = c.model_check('EntryChain_MC', cfg_text=mc_cfg(ACCT_DEFAULTS, **s1), workers=8, timeout=3000)
    if not r.completed:
        c.inconclusive.append('EntryChain.tla (acct instance): %s - the design-level spec violates its own property' % (r.violated or 'deadlock'))
    c.cov['exhaustive'] = True
    # S2 ---------------------------------------------------------------------------------
    scns, tr = [], 0
    gen = mc_cfg(ACCT_DEFAULTS, check=False, constraint='Emit', Batches={2}, MaxOps=4 if not thorough else 5,
                 **({} if thorough else {'Steps': '<-MCStepsQ'}))
    r = c.tlc('EntryChain_MC', cfg_text=gen, workers=4, timeout=900, count=False)
    if r.error:
        raise MachineryError('scenario generation failed: %s\n%s' % (r.error, r.out[-2000:]))
    hs = r.json_prints()
    keep = maximal(hs)
    cap = 1000 if not thorough else 20000
    if len(keep) > cap:
        keep = c.rng.sample(keep, cap)
    for hh in keep:
        tr += 1
        scns.append(decorate(hh, tr, c.rng))
    cover_n = len(keep)
    c.log('S2 transition cover: %d transitions -> %d maximal scenarios kept' % (len(hs), cover_n))
    sim = mc_cfg(ACCT_DEFAULTS, check=False, constraint='Emit', Batches={0, 1, 3}, MaxEntries=4, MaxLive=3, MaxOps=14, ErrToks={'x', 'y'})
    r = c.tlc('EntryChain_MC', cfg_text=sim, workers=1, timeout=900, count=False,
              args=['-simulate', 'num=%d' % (40 if not thorough else 600), '-depth', '15', '-seed', str(c.seed)])
    keep = maximal(r.json_prints())
    if len(keep) > (700 if not thorough else cap):
        keep = c.rng.sample(keep, 700 if not thorough else cap)
    for hh in keep:
        tr += 1
        scns.append(decorate(hh, tr, c.rng))
    c.log('S2 TLC simulation: %d behaviours' % len(keep))
    seeded = directed(tr + 1)
    tr += len(seeded)
    nrand = 300 if not thorough else 6000
    rs = []
    for i in range(nrand):
        tr += 1
        rs.append(random_stat(c, tr))
    rg = []
    for i in range(nrand):
        tr += 1
        rg.append(random_global(c, tr))
    st = stress_scenarios(tr + 1, c.seed, thorough)
    tr += len(st)
    # S3 + S4 ----------------------------------------------------------------------------
    selftested, found = False, []
    for tag, group in (('directed', seeded), ('tlc', scns), ('stat', rs), ('global', rg), ('stress', st)):
        for i in range(0, len(group), 2500):
            part = group[i:i + 2500]
            mism, tp = run_and_validate(c, drv, part, '%s%d' % (tag, i), timeout=900)
            c.cov['conformance_mismatches'] += len(mism)
            if tag in ('tlc', 'stat', 'global') and not selftested:
                # the self-test needs good traces: drop the mismatching ones
                bad = {m[0] for m in mism}
                good = [json.loads(l) for l in open(tp)]
                keepl, cur = [], None
                for e in good:
                    if e['op'] == 'new':
                        cur = e['tr']
                    if cur not in bad:
                        keepl.append(e)
                if keepl:
                    gp = os.path.join(c.scratch, 'good.ndjson')
                    write_ndjson(gp, keepl)
                    binding_selftest(c, gp)
                    selftested = True
            fl, by_tr = first_lines(tp), {s[0]['tr']: s for s in part}
            found += [(tag, by_tr[t], line, fl[t], exp, obs) for t, line, exp, obs in mism]
    handle_mismatches(c, drv, found, dict(directed=seeded, tlc=scns, stat=rs, **{'global': rg}))
    if not selftested:
        c.inconclusive.append('binding self-test did not run')
    allscn = seeded + scns + rs + rg + st
    c.cov['distinct_nontrivial'] = len({json.dumps(s[1:], sort_keys=True) for s in allscn if nontrivial(s)})
    c.cov['rule'] = ('scenarios = one per transition of a bounded acct instance of EntryChain (%d) + TLC random simulation + seeded random histories '
                     'on custom chains and on the global chain + directed + stress; non-trivial = distinct history containing a block, a panic-admitted '
                     'entry, a repeated / late Exit, a stress phase, or at least two entries with a clock advance' % cover_n)
    c.sample(scns[len(scns) // 2][:12])
    c.sample(rs[0][:14])
    c.sample(rg[0][:10])
    c.assumptions += ['completion amounts: b completed tokens, the response time once, b error tokens when the entry carries an error (as read back through GetSum)',
                      'an entry admitted through a panic may be counted like a passed one or not at all; its own error may be any error set on it '
                      '(or the library\'s internal one)',
                      'an error set on an entry is "its own" whichever of several set errors the completion carries',
                      'the stress phase is judged only at quiescence on order-insensitive totals (clock frozen: one bucket)',
                      'panics inside user-supplied statistic slots or exit handlers are outside the domain of C01 (covered by C16)',
                      'TLC model checking is exhaustive only for the bounded instance listed in tlc_runs']


main('C01', check)
