"""C05 - hot-parameter QPS rules shape each parameter value independently.

S1  TLC checks HotParamQps.tla exhaustively for several small configurations: the decisions of the
    implementation-shaped layer (lazy-refill token bucket / pacing cell over two LRU caches) satisfy the
    envelopes E1-E3 / P1-P2, NoArg, and equal the decisions of single-value shadow instances while the
    capacity is not exceeded (IndepOK); the retry loop never spins (NoHang), the caches stay in step.
S2  scenarios: (a) one per transition of small bounded instances (ACTION_CONSTRAINT Emit), (b) TLC random
    simulation of larger ones, (c) seeded random multi-value arrival histories over realistic configurations
    (thresholds, bursts, durations, queueing limits, specific items, capacity above / below the number of
    live values).  Python decorates every request with a concrete argument layout (index 0 / -1 / 1 / -2,
    attachment key present / absent, out-of-range positions) and an argument type.
S3  harness/cmd/c05 replays them on the real code under the virtual clock and records decision + Sleep;
    every request is also issued on a "solo" resource that only sees that value (Independence).
S4  HotParamQps_Trace.tla (TLC) judges every recorded decision against the ENVELOPES (a relation); the
    implementation-shaped layer runs alongside and reports conformance drift (informational).
"""
import json, os
import vlib
from vlib import main, write_ndjson, read_ndjson, MachineryError

TYPES = ['int', 'string', 'bool', 'float', 'struct', 'mix', 'int64']
ITEMS = {0: {}, 1: {'a': 0, 'b': 5}, 2: {'a': 3}, 3: {'b': 1}}


def mc_cfg(mode, T, B, D, MQ, items, cap, values, batches, steps, maxt, maxops, emit=False, inv=True):
    return """SPECIFICATION Spec
CONSTANTS
  Values = {%s}
  Cf <- MCCf
  MCMode = "%s"
  MCT = %d
  MCB = %d
  MCD = %d
  MCMQ = %d
  MCItemsSel = %d
  MCCap = %d
  Batches = {%s}
  Steps = {%s}
  MaxT = %d
  MaxOps = %d
VIEW view
%s
%s
CHECK_DEADLOCK FALSE
""" % (', '.join('"%s"' % v for v in values), mode, T, B, D, MQ, items, cap, ', '.join(map(str, batches)), ', '.join(map(str, steps)),
       maxt, maxops, 'INVARIANTS TypeOK E1OK E2OK E3OK P1OK P2OK NoArgOK IndepOK NoHang CachesAgree CapOK' if inv else '',
       'ACTION_CONSTRAINT Emit' if emit else '')


def cf_of(mode, T, B, D, MQ, items, cap):
    return dict(mode=mode, T=T, B=B, D=D, MQ=MQ, items=dict(ITEMS[items]), cap=cap)


# ------------------------------------------------------------------------------------------ scenarios
def layout(rng):
    x = rng.random()
    if x < 0.3:
        return rng.choice([0, -1]), 'k'
    return rng.choice([0, 0, -1, -1, 1, -2, 5]), ''


def shape(rng, idx, key, v, fillers=('x', 'y')):
    """concrete (args, atts) of a request whose selected argument under (idx, key) is v ('-' = none)"""
    f = lambda: rng.choice(fillers)
    atts = {}
    if v == '-':
        if key and rng.random() < 0.5:
            atts = {'other': f()}
        if idx in (0, -1):
            args = []
        elif idx == 5:
            args = rng.choice([[], [f()], [f(), f(), f()]])
        else:   # 1, -2: one argument is not enough
            args = rng.choice([[], [f()]])
        return args, atts
    if key and rng.random() < 0.7:
        atts = {key: v}
        if rng.random() < 0.3:
            atts['other'] = f()
        args = rng.choice([[], [f()], [f(), f()]])      # a positional argument is present, too: the key has priority
        return args, atts
    if idx == 0:
        args = rng.choice([[v], [v], [v, f()], [v, f(), f()]])
    elif idx == -1:
        args = rng.choice([[v], [v], [f(), v], [f(), f(), v]])
    elif idx == 1:
        args = rng.choice([[f(), v], [f(), v, f()]])
    elif idx == -2:
        args = rng.choice([[v, f()], [f(), v, f()]])
    else:  # 5
        args = [f(), f(), f(), f(), f(), v] + rng.choice([[], [f()]])
    if key and rng.random() < 0.5:
        atts = {'other': f()}
    return args, atts


def build(rng, tr, cf, reqs, pcap=None):
    """reqs: list of (t, v, b) -> driver scenario"""
    idx, key = layout(rng)
    vals = sorted({v for _, v, _ in reqs if v != '-'})
    s = [dict(op='new', tr=tr, ty=rng.choice(TYPES), cf=cf, idx=idx, key=key, vals=vals)]
    if pcap is not None:
        s[0]['pcap'] = pcap
    for t, v, b in reqs:
        args, atts = shape(rng, idx, key, v)
        s.append(dict(op='req', t=t, v=v, args=args, atts=atts, b=b))
    return s


def random_scenario(c, tr):
    rng = c.rng
    mode = rng.choice(['reject', 'throttle'])
    D = rng.choice([1000, 1000, 2000, 3000])
    T = rng.choice([0, 1, 1, 2, 2, 3, 3, 4, 5, 7, 10])
    B = rng.choice([0, 0, 1, 2, 5]) if mode == 'reject' else 0
    MQ = rng.choice([0, 1, 100, 334, 500, 1000, 2500]) if mode == 'throttle' else 0
    vals = ['a', 'b', 'c', 'd'][:rng.randint(1, 4)]
    items = {v: rng.choice([0, 1, 2, 3, 5, 8]) for v in rng.sample(vals, rng.randint(0, min(2, len(vals))))}
    pcap = None
    if rng.random() < 0.15:
        cap, pcap = min(20000, 4000 * D // 1000), 0       # default capacity
    else:
        cap = rng.choice([1, 2, 3, 100, 100])
    cf = dict(mode=mode, T=T, B=B, D=D, MQ=MQ, items=items, cap=cap)
    reqs, t = [], rng.choice([0, 0, 1, 999])
    for _ in range(rng.randint(15, 45)):
        v = rng.choice(vals) if rng.random() < 0.93 else '-'
        tv = items.get(v, T)
        b = rng.choice([1, 1, 1, 1, 2, 3, max(1, tv), tv + B, tv + B + 1, 0 if rng.random() < 0.2 else 1])
        reqs.append((t, v, b))
        iv = (b * D // tv) if tv > 0 else D
        d = rng.choice([0, 0, 0, 1, 10, iv - 1, iv, iv + 1, D // 2, D - 1, D, D + 1, 2 * D + 1, rng.randint(0, 3 * D), rng.randint(0, 400)])
        t += max(0, d)
    return build(rng, tr, cf, reqs, pcap)


# ------------------------------------------------------------------------------------------ pipeline
def split_traces(lines):
    out, cur = {}, None
    for l in lines:
        if l.get('op') == 'new':
            cur = l['tr']
            out[cur] = []
        out[cur].append(l)
    return out


def run_and_validate(c, drv, scns, tag, count=True):
    sp = os.path.join(c.scratch, tag + '.scn.ndjson')
    tp = os.path.join(c.scratch, tag + '.trace.ndjson')
    write_ndjson(sp, [o for s in scns for o in s])
    c.run([drv, sp, tp], timeout=600)
    nlines = sum(1 for _ in open(tp))
    mism, consumed, r = c.validate('HotParamQps_Trace', tp, nlines)
    if consumed != nlines:
        raise MachineryError('%s: trace validation consumed %d of %d lines (malformed trace?)\n%s' % (tag, consumed, nlines, r.out[-1500:]))
    drift = [l for l in r.out.splitlines() if l.startswith('"DRIFT ')]
    if count:
        c.cov['traces_validated_against_impl'] += len(scns)
        c.cov['evaluations'] += nlines
        c.cov['conformance_mismatches'] += len(drift)
        for d in drift[:3]:
            c.cov.setdefault('drift_examples', []).append('%s %s' % (tag, json.loads(d)))
    c.log('S3/S4 %s: %d scenarios, %d events validated in %.0fs, %d mismatching traces, %d traces drifting from the algorithm layer' % (
        tag, len(scns), nlines, r.wall, len(mism), len(drift)))
    return mism, tp


def tv_of(cf, v):
    return cf['items'].get(v, cf['T'])


def binding_selftest(c, tp, bad_traces):
    """corrupt one recorded request in each of the first clean traces so that it leaves the envelope; all must be rejected
    with the matching clause"""
    traces = split_traces(read_ndjson(tp))
    out, want = [], {}
    order = sorted(traces)
    c.rng.shuffle(order)
    for tr in order:
        lines = traces[tr]
        if tr in bad_traces or len(want) >= 60:
            continue
        cf = lines[0]['cf']
        seen, cands = set(), []
        for e in lines[1:]:
            v = e['v']
            if v == '-':
                cands.append(('noarg', e))
                continue
            first = v not in seen
            seen.add(v)
            within = len(seen) <= cf['cap']
            if within:
                cands.append(('indep', e))
            if cf['mode'] == 'reject' and e['ok'] and within:
                cands.append(('E2', e))
            if cf['mode'] == 'reject' and e['ok'] and first and 1 <= e['b'] <= tv_of(cf, v):
                cands.append(('E3', e))
            if cf['mode'] == 'throttle' and e['ok']:
                cands.append(('P2', e))
        if not cands:
            continue
        # prefer a uniform mix of clauses
        kinds = sorted({k for k, _ in cands})
        kind = kinds[len(want) % len(kinds)]
        e = c.rng.choice([e for k, e in cands if k == kind])
        if kind == 'noarg':
            e['ok'] = False
        elif kind == 'indep':
            e['solo']['ok'] = not e['solo']['ok']
        elif kind == 'E2':
            e['b'] += 2 * (tv_of(cf, e['v']) + cf['B']) + 1
        elif kind == 'E3':
            e['ok'] = False
            e['solo']['ok'] = False
        elif kind == 'P2':
            e['wait'] = max(cf['MQ'], 1)
            e['solo']['wait'] = e['wait']
        want[tr] = kind
        out += lines
    if len(want) < 5:
        c.inconclusive.append('binding self-test: fewer than 5 clean traces to corrupt')
        return
    cp = os.path.join(c.scratch, 'corrupt.ndjson')
    write_ndjson(cp, out)
    mism, consumed, r = c.validate('HotParamQps_Trace', cp, len(out))
    if consumed != len(out):
        raise MachineryError('binding self-test: corrupted trace file not consumed (%d of %d)' % (consumed, len(out)))
    got = {m[0]: json.loads(m[2])['why'] for m in mism}
    wrong = {tr: (k, got.get(tr)) for tr, k in want.items() if tr not in got or (k != got[tr] and not (k == 'E2' and got[tr] == 'E1'))}
    if wrong or set(got) - set(want):
        raise MachineryError('binding self-test failed: (trace: corrupted clause, reported clause) %s; unexpected %s' % (
            wrong, sorted(set(got) - set(want))))
    kinds = {}
    for k in want.values():
        kinds[k] = kinds.get(k, 0) + 1
    c.cov['binding_selftest'] = '%d corrupted traces, all rejected with the matching clause %s' % (len(want), kinds)
    c.log('binding self-test: %d corrupted traces, all rejected by HotParamQps_Trace %s' % (len(want), kinds))


def classify(exp, trace_lines):
    """known-finding key of a confirmed mismatch (one precise key per defect), or None.  No defect of C05 is known."""
    return None


CLAUSE = {
    'E1': 'reject mode: tokens admitted for the value exceed (threshold+burst) + threshold per elapsed duration since first seen',
    'E2': 'reject mode: more than 2*(threshold+burst) tokens admitted for the value inside one duration',
    'E3': 'reject mode: a value idle for longer than the duration was refused a batch within its threshold',
    'P1': 'throttling: two admitted requests of the value are scheduled closer than batch*duration/threshold',
    'P2': 'throttling: a request was asked to wait as long as the maximum queueing time (or longer)',
    'noarg': 'a request without the selected argument was limited',
    'indep': 'the decision differs from the decision for the value\'s own sub-history although the capacity is not exceeded',
    'reject-mode-wait': 'a reject-mode rule asked the caller to sleep',
    'panic': 'api.Entry panicked',
}


def describe(exp, obs):
    return '%s (value %s, threshold %s, tokens admitted so far %s, first seen %s, idle %s); observed %s' % (
        CLAUSE.get(exp.get('why'), exp.get('why')), exp.get('v'), exp.get('thr'), exp.get('tokens'), exp.get('first'), exp.get('idle'), obs[:400])


def handle_mismatches(c, drv, scns, mism, tp, tag):
    if not mism:
        return
    by_tr = {s[0]['tr']: s for s in scns}
    lines = open(tp).read().splitlines()
    groups = {}
    for tr, line, exp in mism:
        e = json.loads(exp)
        groups.setdefault(e.get('why'), []).append((tr, line, e))
    for why, ms in sorted(groups.items()):
        ms.sort(key=lambda m: len(by_tr[m[0]]))
        c.log('%s: %d mismatching traces, clause %s' % (tag, len(ms), why))
        for tr, line, e in ms[:3]:
            s = by_tr[tr]
            rp = c.save_replay('%s-tr%d.ndjson' % (tag, tr), s)
            ok, key = 0, None
            for i in range(2):      # confirm twice from the replay file in fresh processes
                m2, tp2 = run_and_validate(c, drv, [read_ndjson(rp)], 'confirm%d' % i, count=False)
                if m2:
                    ok += 1
                    key = classify(json.loads(m2[0][2]), read_ndjson(tp2))
            if ok < 2:
                c.inconclusive.append('mismatch of %s trace %d did not reproduce (%d/2)' % (tag, tr, ok))
                continue
            what = describe(e, lines[line - 1]) + ' (line %d of trace %d)' % (line, tr)
            if key and c.is_known(key):
                c.known(key, c.kf[key]['description'])
            else:
                c.violation(what, rp)


def count_nontrivial(scns, tp):
    """distinct scenarios in which the rule actually shaped traffic: some request was rejected or delayed"""
    traces = split_traces(read_ndjson(tp))
    out = set()
    for s in scns:
        t = traces.get(s[0]['tr'], [])
        if any(e['op'] == 'req' and (not e['ok'] or e['wait'] > 0) for e in t):
            out.add(json.dumps(s[1:], sort_keys=True) + json.dumps(s[0]['cf'], sort_keys=True))
    return out


def maximal(hs):
    keys = sorted(json.dumps(x, sort_keys=True)[:-1] for x in hs)
    out = []
    for i, k in enumerate(keys):
        if i + 1 < len(keys) and keys[i + 1].startswith(k) and (keys[i + 1] == k or keys[i + 1][len(k)] == ','):
            continue
        out.append(json.loads(k + ']'))
    return out


# (mode, T, B, D, MQ, items, cap, values, batches, steps, maxT, maxOps)
S1_QUICK = [
    ('reject', 2, 1, 1000, 0, 2, 2, ['a', 'b'], [1, 3], [500, 1001], 2502, 4),
    ('reject', 1, 0, 1000, 0, 1, 1, ['a', 'b'], [1, 2], [400, 1001], 2402, 4),
    ('throttle', 2, 0, 1000, 600, 3, 2, ['a', 'b'], [1, 2], [250, 1000], 1750, 4),
    ('throttle', 3, 0, 1000, 0, 0, 1, ['a', 'b'], [1], [333, 334], 1335, 5),
]
S1_THOROUGH = [
    ('reject', 2, 2, 1000, 0, 1, 2, ['a', 'b', 'c'], [1, 2], [500, 1001], 2502, 4),
    ('reject', 2, 1, 1000, 0, 2, 2, ['a', 'b'], [1, 3], [500, 1001], 3003, 5),
    ('reject', 1, 0, 1000, 0, 1, 1, ['a', 'b'], [1, 2], [400, 1001], 2402, 5),
    ('reject', 3, 0, 2000, 0, 0, 100, ['a', 'b'], [1, 2], [700, 2001], 4702, 5),
    ('reject', 0, 2, 1000, 0, 3, 2, ['a', 'b'], [1, 2], [500, 1001], 2502, 4),
    ('throttle', 2, 0, 1000, 600, 3, 2, ['a', 'b', 'c'], [1, 2], [250, 1000], 2250, 4),
    ('throttle', 2, 0, 1000, 600, 3, 2, ['a', 'b'], [1, 2], [250, 1000], 2500, 5),
    ('throttle', 3, 0, 1000, 0, 0, 1, ['a', 'b'], [1], [333, 334], 1669, 6),
    ('throttle', 3, 0, 1000, 334, 1, 100, ['a', 'b'], [1, 2], [333, 334], 1002, 5),
    ('throttle', 1, 0, 2000, 2000, 0, 2, ['a', 'b'], [1, 2], [1000, 1999], 5998, 5),
]
GEN_QUICK = [
    ('reject', 2, 1, 1000, 0, 2, 2, ['a', 'b', 'c'], [1, 3], [500, 1001], 2002, 3),
    ('reject', 1, 2, 1000, 0, 1, 1, ['a', 'b'], [1, 2], [400, 1001], 2402, 3),
    ('throttle', 2, 0, 1000, 600, 3, 2, ['a', 'b', 'c'], [1, 2], [250, 1000], 1250, 3),
    ('throttle', 3, 0, 1000, 334, 0, 1, ['a', 'b'], [1], [333, 334], 1001, 4),
]
SIM = [
    ('reject', 3, 2, 1000, 0, 1, 2, ['a', 'b', 'c'], [1, 2, 4], [1, 250, 999, 1000, 1001], 9000, 16),
    ('throttle', 3, 0, 1000, 400, 1, 2, ['a', 'b', 'c'], [1, 2], [1, 100, 333, 334, 1000], 6000, 16),
    ('reject', 5, 0, 2000, 0, 2, 100, ['a', 'b', 'c'], [1, 3, 5], [1, 700, 2000, 2001], 15000, 16),
    ('throttle', 1, 0, 2000, 2500, 3, 100, ['a', 'b', 'c'], [1, 2], [1, 1000, 1999, 2000], 15000, 16),
]


def check(c, tier, replay):
    drv = c.build('c05')
    if replay:
        s = read_ndjson(replay)
        mism, tp = run_and_validate(c, drv, [s], 'replay')
        for tr, line, exp in mism:
            c.violation(describe(json.loads(exp), open(tp).read().splitlines()[line - 1]), replay)
        c.cov['states'] = c.cov['transitions'] = 1
        c.sample(s[:6])
        return
    thorough = tier == 'thorough'
    # S1 ---------------------------------------------------------------------------------
    for p in (S1_THOROUGH if thorough else S1_QUICK):
        r = c.model_check('HotParamQps_MC', cfg_text=mc_cfg(*p), workers=8, timeout=3000)
        if not r.completed:
            c.inconclusive.append('HotParamQps.tla: %s violated for %s - the algorithm layer no longer satisfies the envelopes' % (r.violated, p[:7]))
    c.cov['exhaustive'] = True
    # S2 ---------------------------------------------------------------------------------
    scns, tr = [], 0
    for p in (GEN_QUICK if not thorough else GEN_QUICK + S1_QUICK):
        r = c.tlc('HotParamQps_MC', cfg_text=mc_cfg(*p, emit=True, inv=False), workers=4, timeout=1500, count=False)
        if r.error:
            raise MachineryError('scenario generation failed: %s' % r.error)
        hs = r.json_prints()
        keep = maximal(hs)
        cap = 500 if not thorough else 8000
        if len(keep) > cap:
            keep = c.rng.sample(keep, cap)
        for hist in keep:
            tr += 1
            scns.append(build(c.rng, tr, cf_of(*p[:7]), [(o['t'], o['v'], o['b']) for o in hist]))
        c.log('S2 transition cover %s: %d transitions -> %d scenarios' % (p[:7], len(hs), len(keep)))
    cover_n = len(scns)
    for p in SIM:
        num = 100 if not thorough else 1000
        r = c.tlc('HotParamQps_MC', cfg_text=mc_cfg(*p, emit=True, inv=False), workers=1, timeout=900, count=False,
                  args=['-simulate', 'num=%d' % num, '-depth', '24', '-seed', str(c.seed)])
        keep = maximal(r.json_prints())
        if len(keep) > num * 3:     # (simulation mode prints every candidate successor of every step)
            keep = c.rng.sample(keep, num * 3)
        for hist in keep:
            tr += 1
            scns.append(build(c.rng, tr, cf_of(*p[:7]), [(o['t'], o['v'], o['b']) for o in hist]))
        c.log('S2 TLC simulation %s: %d behaviours' % (p[:7], len(keep)))
    nrand = 800 if not thorough else 8000
    rs = []
    for _ in range(nrand):
        tr += 1
        rs.append(random_scenario(c, tr))
    # S3 + S4 ----------------------------------------------------------------------------
    selftested = False
    nontriv = set()
    for tag, group in (('tlc', scns), ('rand', rs)):
        for i in range(0, len(group), 2500):
            part = group[i:i + 2500]
            mism, tp = run_and_validate(c, drv, part, '%s%d' % (tag, i))
            nontriv |= count_nontrivial(part, tp)
            if not selftested:
                binding_selftest(c, tp, {m[0] for m in mism})
                selftested = True
            c.cov['mismatching_traces'] = c.cov.get('mismatching_traces', 0) + len(mism)
            handle_mismatches(c, drv, part, mism, tp, tag)
    c.cov['distinct_nontrivial'] = len(nontriv)
    c.cov['rule'] = ('scenarios = one per transition of bounded HotParamQps instances (%d) + TLC random simulation + seeded random '
                     'multi-value arrival histories; non-trivial = distinct scenario in which the real code rejected or delayed at least one '
                     'request (the rule actually shaped traffic); conformance_mismatches = traces in which the real decision differs from the '
                     'transcribed algorithm layer (informational)' % cover_n)
    c.sample(scns[len(scns) // 2][:8])
    c.sample(rs[0][:8])
    c.assumptions += ['E1, E2, P1 and Independence are demanded only while the number of distinct values seen by the rule does not exceed the '
                      'configured parameter capacity (the statement\'s "while the configured parameter capacity is not exceeded"); E3, P2, NoArg always',
                      'a value never seen before counts as idle (E3); idle = time since the previous request for the value, whatever its outcome',
                      'with threshold 0 the pacing distance batch*duration/threshold is unbounded: at most one request may ever be scheduled',
                      'when a rule has both an attachment key and an index, the key has priority and the index is the fall-back (Rule.ParamKey doc)',
                      'Sleep does not advance the virtual clock: arrival instants are the scenario\'s, waits are recorded',
                      'sequential callers (one request at a time); argument values are hashable',
                      'TLC model checking is exhaustive only for the bounded instances listed in tlc_runs']
    if thorough: import stages; stages.run_stage(c, 'LRU', 'lru_stage')   # the cache "capacity not exceeded" rests on (checks/LRU.py, spec/Lru.tla)


main('C05', check)
