"""C05 - hot-parameter QPS rules shape each parameter value independently.

S1  TLC checks HotParamQps.tla exhaustively for several small configurations: the decisions of the
    implementation-shaped layer (lazy-refill token bucket / pacing cell over two LRU caches) satisfy the
    envelopes E1-E3 / P1-P2, NoArg, and equal the decisions of single-value shadow instances while the
    capacity is not exceeded (IndepOK); the retry loop never spins (NoHang), the caches stay in step.
S2  scenarios: (a) one per transition of small bounded instances (ACTION_CONSTRAINT Emit), (b) TLC random
    simulation of larger ones, (c) seeded random multi-value arrival histories over realistic configurations
    (thresholds, bursts, durations, queueing limits, specific items, capacity above / below the number of
    live values), (d) the FLOOD family: hot value / flood of n fresh values / hot value again inside the same
    duration, for explicit capacities on both sides of every internal constant of the library (3, 1000, 3999, 4000,
    12001, 20000, 20001, 30000) and the derived defaults (4000 x seconds, cut at 20000), n just below / at / above
    the room left, split floods with an admitted request of the hot value in between, both control behaviours.
    Floods are also part of (a)-(c) (small capacities).  Python decorates every request with a concrete argument layout (index 0 / -1 / 1 / -2,
    attachment key present / absent, out-of-range positions) and an argument type.
    S1 also runs spec-level mutants (caches sized by a clamp that also cuts an explicit capacity / one entry
    short): TLC must reject them (KeepOK with the full invariant set, IndepOK / E1OK / P1OK at decision level).
S3  harness/cmd/c05 replays them on the real code under the virtual clock and records decision + Sleep;
    every request is also issued on a "solo" resource that only sees that value (Independence).
S4  HotParamQps_Trace.tla (TLC) judges every recorded decision against the ENVELOPES (a relation); the
    implementation-shaped layer runs alongside and reports conformance drift (informational).
"""
import json, os, shutil, subprocess, time
from concurrent.futures import ThreadPoolExecutor
import vlib
from vlib import main, write_ndjson, read_ndjson, MachineryError, TLCResult, TLA_CP, SPEC

TYPES = ['int', 'string', 'bool', 'float', 'struct', 'mix', 'int64']
ITEMS = {0: {}, 1: {'a': 0, 'b': 5}, 2: {'a': 3}, 3: {'b': 1}}


INVARIANTS = 'TypeOK E1OK E2OK E3OK P1OK P2OK NoArgOK IndepOK KeepOK FloodFreshOK NoHang CachesAgree CapOK'


def mc_cfg(mode, T, B, D, MQ, items, cap, values, batches, steps, maxt, maxops, floods=(), capbase=1, capmax=2, mutant='',
           emit=False, inv=True):
    """cap = Rule.ParamsMaxCapacity as configured (0 = the derived default min(capmax, capbase * seconds of duration))"""
    return """SPECIFICATION Spec
CONSTANTS
  Values = {%s}
  Cf <- MCCf
  MCMode = "%s"
  MCT = %d
  MCB = %d
  MCD = %d
  MCMQ = %d
  MCItemsSel = %d
  PCap = %d
  CapBase = %d
  CapMax = %d
  Floods = {%s}
  Mutant = "%s"
  Batches = {%s}
  Steps = {%s}
  MaxT = %d
  MaxOps = %d
VIEW view
%s
%s
CHECK_DEADLOCK FALSE
""" % (', '.join('"%s"' % v for v in values), mode, T, B, D, MQ, items, cap, capbase, capmax,
       ', '.join(map(str, floods)), mutant, ', '.join(map(str, batches)), ', '.join(map(str, steps)),
       maxt, maxops, 'INVARIANTS ' + INVARIANTS if inv else '',
       'ACTION_CONSTRAINT Emit' if emit else '')


def cf_of(mode, T, B, D, MQ, items, cap):
    return dict(mode=mode, T=T, B=B, D=D, MQ=MQ, items=dict(ITEMS[items]), cap=cap)


# ------------------------------------------------------------------------------------------ scenarios
def layout(rng):
    x = rng.random()
    if x < 0.3:
        return rng.choice([0, -1]), 'k'
    return rng.choice([0, 0, -1, -1, 1, -2, 5]), ''


def shape(rng, idx, key, v, fillers=('x', 'y')):
    """concrete (args, atts) of a request whose selected argument under (idx, key) is v ('-' = none)"""
    f = lambda: rng.choice(fillers)
    atts = {}
    if v == '-':
        if key and rng.random() < 0.5:
            atts = {'other': f()}
        if idx in (0, -1):
            args = []
        elif idx == 5:
            args = rng.choice([[], [f()], [f(), f(), f()]])
        else:   # 1, -2: one argument is not enough
            args = rng.choice([[], [f()]])
        return args, atts
    if key and rng.random() < 0.7:
        atts = {key: v}
        if rng.random() < 0.3:
            atts['other'] = f()
        args = rng.choice([[], [f()], [f(), f()]])      # a positional argument is present, too: the key has priority
        return args, atts
    if idx == 0:
        args = rng.choice([[v], [v], [v, f()], [v, f(), f()]])
    elif idx == -1:
        args = rng.choice([[v], [v], [f(), v], [f(), f(), v]])
    elif idx == 1:
        args = rng.choice([[f(), v], [f(), v, f()]])
    elif idx == -2:
        args = rng.choice([[v, f()], [f(), v, f()]])
    else:  # 5
        args = [f(), f(), f(), f(), f(), v] + rng.choice([[], [f()]])
    if key and rng.random() < 0.5:
        atts = {'other': f()}
    return args, atts


def build(rng, tr, cf, reqs, pcap=None):
    """reqs: list of (t, v, b) = one request / ('flood', t, n) = n requests with n fresh values -> driver scenario.
    cf['cap'] is the capacity the property speaks of; pcap (default: the same) is what the rule configures (0 = default)"""
    idx, key = layout(rng)
    vals = sorted({r[1] for r in reqs if r[0] != 'flood' and r[1] != '-'})
    s = [dict(op='new', tr=tr, ty=rng.choice(TYPES), cf=cf, idx=idx, key=key, vals=vals)]
    if pcap is not None:
        s[0]['pcap'] = pcap
    nf = 0
    for r in reqs:
        if r[0] == 'flood':
            nf += 1
            args, atts = shape(rng, idx, key, '*')
            s.append(dict(op='flood', t=r[1], n=r[2], prefix='f%d' % nf, args=args, atts=atts))
            continue
        t, v, b = r
        args, atts = shape(rng, idx, key, v)
        s.append(dict(op='req', t=t, v=v, args=args, atts=atts, b=b))
    return s


def of_hist(hist):
    """operations of a TLC-generated history"""
    return [('flood', o['t'], o['n']) if o['op'] == 'flood' else (o['t'], o['v'], o['b']) for o in hist]


def default_cap(D):
    return min(20000, 4000 * (D // 1000))


# (configured capacity (0 = default), duration ms): explicit capacities on both sides of the library's constants
# (ParamsCapacityBase * seconds = 4000 / 12000, ParamsMaxCapacity = 20000) and the derived defaults themselves
FLOOD_CAPS = [(3, 1000), (1000, 1000), (3999, 1000), (4001, 1000), (4000, 3000), (12001, 3000), (0, 1000), (0, 3000), (0, 5000),
              (0, 6000), (20000, 1000), (20001, 1000), (30000, 2000), (30000, 6000)]
FLOOD_VARIANTS = ['below', 'below', 'at', 'above', 'split', 'mix']


def flood_scenario(rng, tr, mode, pcap, D, variant):
    """hot value a (takes what it can get) / [another named value] / flood / a again inside the same duration / ..."""
    cap = pcap if pcap > 0 else default_cap(D)
    T = rng.choice([1, 1, 2, 3])
    B = rng.choice([0, 0, 1, 2]) if mode == 'reject' else 0
    MQ = rng.choice([0, D // 2, 2 * D, 3 * D]) if mode == 'throttle' else 0
    items = rng.choice([{}, {}, {'b': rng.choice([0, 1, 4])}, {'a': rng.choice([1, 2])}])
    cf = dict(mode=mode, T=T, B=B, D=D, MQ=MQ, items=items, cap=cap)
    ta = items.get('a', T)
    t = rng.choice([0, 1, 500])
    ops = []
    if variant == 'split':
        # a / flood k1 / a (admitted: recently used again) / flood k2 / a must still be limited; k1 + k2 > capacity > k1, k2
        if mode == 'reject':
            cf['T'], cf['B'], cf['items'] = 3, rng.choice([0, 1]), {k: v for k, v in items.items() if k != 'a'}
            ta = 3
            bs = [1, 1, 3 + cf['B']]
        else:
            cf['MQ'] = 3 * D
            bs = [1, 1, 1]
        k1 = max(1, rng.choice([cap - 1, cap // 2 + 1, (2 * cap) // 3]))
        k1 = min(k1, cap - 1) if cap > 1 else 1
        k2 = max(1, min(cap - 1, cap - k1 + rng.choice([1, 2, cap // 4])))
        ops = [(t, 'a', bs[0]), ('flood', t, k1), (t + rng.choice([0, 1]), 'a', bs[1]), ('flood', t + 1, k2), (t + 1, 'a', bs[2]), (t + 2, 'a', 1)]
    elif variant == 'mix':
        for _ in range(rng.randint(5, 9)):
            x = rng.random()
            if x < 0.45:
                ops.append((t, 'a', rng.choice([1, 1, ta + B])))
            elif x < 0.6:
                ops.append((t, 'b', 1))
            else:
                ops.append(('flood', t, max(1, rng.choice([cap - 1, cap - 2, cap // 2, cap // 3, cap, 1, 2]))))
            t += rng.choice([0, 0, 1, D // (4 * T), D // 2])
        ops.append((t, 'a', 1))
    else:
        ops.append((t, 'a', (ta + B) if mode == 'reject' else 1))
        others = 0
        if rng.random() < 0.5 and cap > 2:
            ops.append((t + rng.choice([0, 1]), 'b', 1))
            others = 1
        room = cap - 1 - others          # the largest flood that keeps a's rank below the capacity
        if variant == 'below':
            n = rng.choice([room, room, room - 1, max(1, room // 2)])
        elif variant == 'at':
            n = room + 1
        else:
            n = room + 1 + rng.choice([1, 2, 50])
        n = max(1, n)
        ops.append(('flood', t + 1, n))
        iv = D // max(1, ta)
        t2 = t + 1 + rng.choice([0, 1, iv // 2, max(0, iv - 3)])      # inside the same duration, before any token is due
        ops += [(t2, 'a', 1), (t2, 'a', 1)]
        if others:
            ops.append((t2, 'b', 1))
        if rng.random() < 0.5:
            ops.append(('flood', t2, rng.choice([1, 2, max(1, cap // 3)])))
            ops.append((t2 + 1, 'a', 1))
        ops.append((t2 + D + 1 + rng.choice([0, D]), 'a', 1))       # idle for longer than the duration: granted again
    return build(rng, tr, cf, ops, pcap)


def random_scenario(c, tr):
    rng = c.rng
    mode = rng.choice(['reject', 'throttle'])
    D = rng.choice([1000, 1000, 2000, 3000])
    T = rng.choice([0, 1, 1, 2, 2, 3, 3, 4, 5, 7, 10])
    B = rng.choice([0, 0, 1, 2, 5]) if mode == 'reject' else 0
    MQ = rng.choice([0, 1, 100, 334, 500, 1000, 2500]) if mode == 'throttle' else 0
    vals = ['a', 'b', 'c', 'd'][:rng.randint(1, 4)]
    items = {v: rng.choice([0, 1, 2, 3, 5, 8]) for v in rng.sample(vals, rng.randint(0, min(2, len(vals))))}
    pcap = None
    if rng.random() < 0.15:
        cap, pcap = min(20000, 4000 * D // 1000), 0       # default capacity
    else:
        cap = rng.choice([1, 2, 3, 100, 100])
    cf = dict(mode=mode, T=T, B=B, D=D, MQ=MQ, items=items, cap=cap)
    reqs, t = [], rng.choice([0, 0, 1, 999])
    pflood = rng.choice([0, 0, 0.04, 0.1]) if cap <= 100 else rng.choice([0, 0, 0, 0.04])
    for _ in range(rng.randint(15, 45)):
        if rng.random() < pflood:
            reqs.append(('flood', t, max(1, rng.choice([1, 1, 2, cap - 1, cap - 2, cap - len(vals), cap, cap // 2]))))
            t += rng.choice([0, 0, 1, D // 2, D + 1])
            continue
        v = rng.choice(vals) if rng.random() < 0.93 else '-'
        tv = items.get(v, T)
        b = rng.choice([1, 1, 1, 1, 2, 3, max(1, tv), tv + B, tv + B + 1, 0 if rng.random() < 0.2 else 1])
        reqs.append((t, v, b))
        iv = (b * D // tv) if tv > 0 else D
        d = rng.choice([0, 0, 0, 1, 10, iv - 1, iv, iv + 1, D // 2, D - 1, D, D + 1, 2 * D + 1, rng.randint(0, 3 * D), rng.randint(0, 400)])
        t += max(0, d)
    return build(rng, tr, cf, reqs, pcap)


# ------------------------------------------------------------------------------------------ pipeline
def split_traces(lines):
    out, cur = {}, None
    for l in lines:
        if l.get('op') in ('new', 'mnew'):
            cur = l['tr']
            out[cur] = []
        out[cur].append(l)
    return out


def run_and_validate(c, drv, scns, tag, count=True):
    sp = os.path.join(c.scratch, tag + '.scn.ndjson')
    tp = os.path.join(c.scratch, tag + '.trace.ndjson')
    write_ndjson(sp, [o for s in scns for o in s])
    c.run([drv, sp, tp], timeout=600)
    nlines = sum(1 for _ in open(tp))
    mism, consumed, r = c.validate('HotParamQps_Trace', tp, nlines)
    if consumed != nlines:
        raise MachineryError('%s: trace validation consumed %d of %d lines (malformed trace?)\n%s' % (tag, consumed, nlines, r.out[-1500:]))
    drift = [l for l in r.out.splitlines() if l.startswith('"DRIFT ')]
    if count:
        c.cov['traces_validated_against_impl'] += len(scns)
        c.cov['evaluations'] += nlines
        c.cov['conformance_mismatches'] += len(drift)
        for d in drift[:3]:
            c.cov.setdefault('drift_examples', []).append('%s %s' % (tag, json.loads(d)))
    c.log('S3/S4 %s: %d scenarios, %d events validated in %.0fs, %d mismatching traces, %d traces drifting from the algorithm layer' % (
        tag, len(scns), nlines, r.wall, len(mism), len(drift)))
    return mism, tp


def tv_of(cf, v):
    return cf['items'].get(v, cf['T'])


def binding_selftest(c, tp, bad_traces, key='binding_selftest'):
    """corrupt one recorded request in each of the first clean traces so that it leaves the envelope; all must be rejected
    with the matching clause"""
    traces = split_traces(read_ndjson(tp))
    out, want = [], {}
    order = sorted(traces)
    c.rng.shuffle(order)
    for tr in order:
        lines = traces[tr]
        if tr in bad_traces or len(want) >= 60:
            continue
        cf = lines[0]['cf']
        seen, cands, flooded = set(), [], 0
        for e in lines[1:]:
            if e['op'] == 'flood':
                flooded += e['n']
                if cf['T'] >= 1 and e['adm'] == e['n']:
                    cands.append(('flood', e))
                continue
            v = e['v']
            if v == '-':
                cands.append(('noarg', e))
                continue
            first = v not in seen
            seen.add(v)
            within = len(seen) + flooded <= cf['cap']       # (sufficient for "the capacity is not exceeded for v")
            if within:
                cands.append(('indep', e))
            if cf['mode'] == 'reject' and e['ok'] and within:
                cands.append(('E2', e))
            if cf['mode'] == 'reject' and e['ok'] and first and 1 <= e['b'] <= tv_of(cf, v):
                cands.append(('E3', e))
            if cf['mode'] == 'throttle' and e['ok']:
                cands.append(('P2', e))
        if not cands:
            continue
        # prefer a uniform mix of clauses
        kinds = sorted({k for k, _ in cands})
        kind = kinds[len(want) % len(kinds)]
        if 'flood' in kinds and sum(1 for k in want.values() if k.startswith('flood')) < 8:
            kind = 'flood'
        e = c.rng.choice([e for k, e in cands if k == kind])
        if kind == 'noarg':
            e['ok'] = False
        elif kind == 'indep':
            e['solo']['ok'] = not e['solo']['ok']
        elif kind == 'E2':
            e['b'] += 2 * (tv_of(cf, e['v']) + cf['B']) + 1
        elif kind == 'E3':
            e['ok'] = False
            e['solo']['ok'] = False
        elif kind == 'P2':
            e['wait'] = max(cf['MQ'], 1)
            e['solo']['wait'] = e['wait']
        elif kind == 'flood':       # one of the fresh values refused
            e['adm'] -= 1
            kind = 'flood:' + ('E3' if cf['mode'] == 'reject' else 'indep')
        want[tr] = kind
        out += lines
    if len(want) < 5:
        c.inconclusive.append('binding self-test: fewer than 5 clean traces to corrupt')
        return
    cp = os.path.join(c.scratch, 'corrupt.ndjson')
    write_ndjson(cp, out)
    mism, consumed, r = c.validate('HotParamQps_Trace', cp, len(out))
    if consumed != len(out):
        raise MachineryError('binding self-test: corrupted trace file not consumed (%d of %d)' % (consumed, len(out)))
    got = {m[0]: json.loads(m[2])['why'] for m in mism}
    wrong = {tr: (k, got.get(tr)) for tr, k in want.items()
             if tr not in got or (k.split(':')[-1] != got[tr] and not (k == 'E2' and got[tr] == 'E1'))}
    if wrong or set(got) - set(want):
        raise MachineryError('binding self-test failed: (trace: corrupted clause, reported clause) %s; unexpected %s' % (
            wrong, sorted(set(got) - set(want))))
    kinds = {}
    for k in want.values():
        kinds[k.split(':')[0]] = kinds.get(k.split(':')[0], 0) + 1
    c.cov[key] = '%d corrupted traces, all rejected with the matching clause %s' % (len(want), kinds)
    c.log('binding self-test: %d corrupted traces, all rejected by HotParamQps_Trace %s' % (len(want), kinds))


def classify(exp, trace_lines):
    """known-finding key of a confirmed mismatch (one precise key per defect), or None.  No defect of C05 is known."""
    return None


CLAUSE = {
    'E1': 'reject mode: tokens admitted for the value exceed (threshold+burst) + threshold per elapsed duration since first seen',
    'E2': 'reject mode: more than 2*(threshold+burst) tokens admitted for the value inside one duration',
    'E3': 'reject mode: a value idle for longer than the duration was refused a batch within its threshold',
    'P1': 'throttling: two admitted requests of the value are scheduled closer than batch*duration/threshold',
    'P2': 'throttling: a request was asked to wait as long as the maximum queueing time (or longer)',
    'noarg': 'a request without the selected argument was limited',
    'indep': 'the decision differs from the decision for the value\'s own sub-history although the capacity is not exceeded',
    'reject-mode-wait': 'a reject-mode rule asked the caller to sleep',
    'panic': 'api.Entry panicked',
    'unknown-rule': 'a request was refused in the name of a rule that is not in force',
    'reload': 'not every rule of the pushed list is in force',
}


def describe(exp, obs):
    if 'rule' in exp:
        return ('%s - several rules on one resource after a reload: rule %s refused value %s of ITS argument, idle %s ms in the rule\'s own books '
                '(-1 = never charged to this rule or to any rule it may have replaced); observed %s' % (
                    CLAUSE.get(exp.get('why'), exp.get('why')), exp.get('rule'), exp.get('v'), exp.get('idle'), obs[:400]))
    if 'n' in exp:
        return ('%s: %s of the %s fresh values of a flood admitted (general threshold %s, capacity %s); observed %s' % (
            CLAUSE.get(exp.get('why'), exp.get('why')), exp.get('admitted'), exp.get('n'), exp.get('thr'), exp.get('cap'), obs[:400]))
    return ('%s (value %s, threshold %s, tokens admitted so far %s, first seen %s, idle %s, distinct other values since its last admitted '
            'request %s, configured capacity %s); observed %s' % (
                CLAUSE.get(exp.get('why'), exp.get('why')), exp.get('v'), exp.get('thr'), exp.get('tokens'), exp.get('first'), exp.get('idle'),
                exp.get('rank'), exp.get('cap'), obs[:400]))


def handle_mismatches(c, drv, scns, mism, tp, tag):
    if not mism:
        return
    by_tr = {s[0]['tr']: s for s in scns}
    lines = open(tp).read().splitlines()
    groups = {}
    for tr, line, exp in mism:
        e = json.loads(exp)
        groups.setdefault(e.get('why'), []).append((tr, line, e))
    for why, ms in sorted(groups.items()):
        ms.sort(key=lambda m: len(by_tr[m[0]]))
        c.log('%s: %d mismatching traces, clause %s' % (tag, len(ms), why))
        for tr, line, e in ms[:3]:
            s = by_tr[tr]
            rp = c.save_replay('%s-tr%d.ndjson' % (tag, tr), s)
            ok, key = 0, None
            for i in range(2):      # confirm twice from the replay file in fresh processes
                m2, tp2 = run_and_validate(c, drv, [read_ndjson(rp)], 'confirm%d' % i, count=False)
                if m2:
                    ok += 1
                    key = classify(json.loads(m2[0][2]), read_ndjson(tp2))
            if ok < 2:
                c.inconclusive.append('mismatch of %s trace %d did not reproduce (%d/2)' % (tag, tr, ok))
                continue
            what = describe(e, lines[line - 1]) + ' (line %d of trace %d)' % (line, tr)
            if key and c.is_known(key):
                c.known(key, c.kf[key]['description'])
            else:
                c.violation(what, rp)


def count_nontrivial(scns, tp):
    """distinct scenarios in which the rule actually shaped traffic: some request was rejected or delayed"""
    traces = split_traces(read_ndjson(tp))
    out = set()
    for s in scns:
        t = traces.get(s[0]['tr'], [])
        if any(e['op'] in ('req', 'mreq') and (not e['ok'] or e['wait'] > 0) for e in t):
            out.add(json.dumps(s[1:], sort_keys=True) + json.dumps(s[0]['cf'], sort_keys=True))
    return out


def flood_stats(tp):
    """evidence only (the verdicts are the trace spec's): requests of a tracked value that arrive with fresh flood values counted in
    its recency rank, split by rank below the capacity (decision must be the one of its own sub-history) / at or above (either)"""
    below = above = limited = 0
    for lines in split_traces(read_ndjson(tp)).values():
        cap = lines[0]['cf']['cap']
        since, fl, lost = {}, {}, set()
        for e in lines[1:]:
            if e['op'] == 'flood':
                for x in fl:
                    fl[x] += e['n']
                continue
            v = e['v']
            if v == '-':
                continue
            if v in since:
                if len(since[v]) + fl[v] >= cap:
                    lost.add(v)
                if fl[v] > 0:
                    if v in lost:
                        above += 1
                    else:
                        below += 1
                        limited += 1 if (not e['ok'] or e['wait'] > 0) else 0
            if e['ok'] or v not in since:
                since[v], fl[v] = set(), 0
            for x in since:
                if x != v:
                    since[x].add(v)
    return below, limited, above


def maximal(hs):
    keys = sorted(json.dumps(x, sort_keys=True)[:-1] for x in hs)
    out = []
    for i, k in enumerate(keys):
        if i + 1 < len(keys) and keys[i + 1].startswith(k) and (keys[i + 1] == k or keys[i + 1][len(k)] == ','):
            continue
        out.append(json.loads(k + ']'))
    return out


# (mode, T, B, D, MQ, items, cap, values, batches, steps, maxT, maxOps)
S1_QUICK = [
    ('reject', 2, 1, 1000, 0, 2, 2, ['a', 'b'], [1, 3], [500, 1001], 2502, 4),
    ('reject', 1, 0, 1000, 0, 1, 1, ['a', 'b'], [1, 2], [400, 1001], 2402, 4),
    ('throttle', 2, 0, 1000, 600, 3, 2, ['a', 'b'], [1, 2], [250, 1000], 1750, 4),
    ('throttle', 3, 0, 1000, 0, 0, 1, ['a', 'b'], [1], [333, 334], 1335, 5),
]
S1_THOROUGH = [
    ('reject', 2, 2, 1000, 0, 1, 2, ['a', 'b', 'c'], [1, 2], [500, 1001], 2502, 4),
    ('reject', 2, 1, 1000, 0, 2, 2, ['a', 'b'], [1, 3], [500, 1001], 3003, 5),
    ('reject', 1, 0, 1000, 0, 1, 1, ['a', 'b'], [1, 2], [400, 1001], 2402, 5),
    ('reject', 3, 0, 2000, 0, 0, 100, ['a', 'b'], [1, 2], [700, 2001], 4702, 5),
    ('reject', 0, 2, 1000, 0, 3, 2, ['a', 'b'], [1, 2], [500, 1001], 2502, 4),
    ('throttle', 2, 0, 1000, 600, 3, 2, ['a', 'b', 'c'], [1, 2], [250, 1000], 2250, 4),
    ('throttle', 2, 0, 1000, 600, 3, 2, ['a', 'b'], [1, 2], [250, 1000], 2500, 5),
    ('throttle', 3, 0, 1000, 0, 0, 1, ['a', 'b'], [1], [333, 334], 1669, 6),
    ('throttle', 3, 0, 1000, 334, 1, 100, ['a', 'b'], [1, 2], [333, 334], 1002, 5),
    ('throttle', 1, 0, 2000, 2000, 0, 2, ['a', 'b'], [1, 2], [1000, 1999], 5998, 5),
]
# floods: (..., dict(floods=sizes, capbase=, capmax=, mutant=)); cap = the CONFIGURED capacity (0 = derived default)
S1_FLOOD = [
    ('reject', 2, 1, 1000, 0, 2, 3, ['a', 'b'], [1, 3], [500, 1001], 1502, 4, dict(floods=[1, 2, 3])),            # explicit, above CapMax
    ('throttle', 2, 0, 1000, 600, 3, 3, ['a', 'b'], [1, 2], [250, 1000], 1250, 4, dict(floods=[1, 2])),
    ('reject', 1, 1, 3000, 0, 1, 0, ['a', 'b'], [1, 2], [1500, 3001], 4502, 4, dict(floods=[1, 2])),             # default, cut by CapMax
    ('throttle', 1, 0, 2000, 2000, 0, 0, ['a', 'b'], [1], [1000, 1999], 3999, 4, dict(floods=[1, 2], capmax=3)),  # default = CapBase * seconds
]
S1_FLOOD_THOROUGH = [
    ('reject', 2, 1, 1000, 0, 2, 3, ['a', 'b', 'c'], [1, 3], [500, 1001], 1502, 4, dict(floods=[1, 2, 3])),
    ('reject', 2, 1, 1000, 0, 2, 3, ['a', 'b'], [1, 3], [500, 1001], 2002, 5, dict(floods=[1, 2, 3])),
    ('throttle', 2, 0, 1000, 600, 3, 3, ['a', 'b', 'c'], [1, 2], [250, 1000], 1250, 4, dict(floods=[1, 2])),
    ('throttle', 2, 0, 1000, 600, 3, 4, ['a', 'b'], [1, 2], [250, 1000], 1500, 5, dict(floods=[1, 3])),
]
# spec-level mutants of the sizing of the caches: (index into S1_FLOOD, mutant, invariants) -> must be rejected by TLC
DECISION_LEVEL = 'E1OK E2OK E3OK P1OK P2OK NoArgOK IndepOK FloodFreshOK'
SPEC_MUTANTS = [(0, 'clamp', INVARIANTS), (0, 'clamp', DECISION_LEVEL), (1, 'clamp', DECISION_LEVEL), (0, 'offbyone', DECISION_LEVEL),
                (3, 'offbyone', INVARIANTS)]
GEN_FLOOD = [
    ('reject', 2, 1, 1000, 0, 2, 3, ['a', 'b'], [1, 3], [500, 1001], 1001, 4, dict(floods=[1, 2, 3])),
    ('throttle', 2, 0, 1000, 600, 3, 2, ['a', 'b'], [1, 2], [250, 1000], 500, 4, dict(floods=[1, 2])),
]
GEN_QUICK = [
    ('reject', 2, 1, 1000, 0, 2, 2, ['a', 'b', 'c'], [1, 3], [500, 1001], 2002, 3),
    ('reject', 1, 2, 1000, 0, 1, 1, ['a', 'b'], [1, 2], [400, 1001], 2402, 3),
    ('throttle', 2, 0, 1000, 600, 3, 2, ['a', 'b', 'c'], [1, 2], [250, 1000], 1250, 3),
    ('throttle', 3, 0, 1000, 334, 0, 1, ['a', 'b'], [1], [333, 334], 1001, 4),
]
SIM = [
    ('reject', 3, 2, 1000, 0, 1, 2, ['a', 'b', 'c'], [1, 2, 4], [1, 250, 999, 1000, 1001], 9000, 16),
    ('throttle', 3, 0, 1000, 400, 1, 2, ['a', 'b', 'c'], [1, 2], [1, 100, 333, 334, 1000], 6000, 16),
    ('reject', 5, 0, 2000, 0, 2, 100, ['a', 'b', 'c'], [1, 3, 5], [1, 700, 2000, 2001], 15000, 16),
    ('throttle', 1, 0, 2000, 2500, 3, 100, ['a', 'b', 'c'], [1, 2], [1, 1000, 1999, 2000], 15000, 16),
]
SIM_FLOOD = [
    ('reject', 3, 1, 1000, 0, 2, 6, ['a', 'b', 'c'], [1, 2, 4], [1, 250, 999, 1001], 9000, 16, dict(floods=[1, 2, 3, 5])),
    ('throttle', 3, 0, 1000, 700, 1, 5, ['a', 'b', 'c'], [1, 2], [1, 100, 333, 334, 1000], 6000, 16, dict(floods=[1, 2, 4])),
]


def kw_of(p):
    return dict(p[12]) if len(p) > 12 else {}


def inv_cfg(p, mutant, invs):
    return mc_cfg(*p[:12], **dict(kw_of(p), mutant=mutant)).replace('INVARIANTS ' + INVARIANTS, 'INVARIANTS ' + invs)


def tlc_many(c, jobs):
    """several small TLC runs of HotParamQps_MC side by side (variant of Check.tlc: own directory per job).
    jobs = [(name, cfg_text, extra_args)]; returns {name: TLCResult}; every run is listed in the evidence"""
    def one(job):
        name, text, args = job[:3]
        module = job[3] if len(job) > 3 else 'HotParamQps_MC'
        d = os.path.join(c.scratch, 'ptlc-' + name)
        os.makedirs(d)
        for f in os.listdir(SPEC):
            if f.startswith('HotParam') and f.endswith('.tla'):
                shutil.copy(os.path.join(SPEC, f), d)
        open(os.path.join(d, module + '.cfg'), 'w').write(text)
        cmd = ['java', '-XX:+UseParallelGC', '-Xmx3g', '-Xss64m', '-cp', TLA_CP, 'tlc2.TLC', '-workers', '2' if '-simulate' not in args else '1',
               '-metadir', os.path.join(d, 'md'), '-noGenerateSpecTE'] + list(args) + [module]
        t = time.time()
        try:
            p = subprocess.run(cmd, cwd=d, stdout=subprocess.PIPE, stderr=subprocess.STDOUT, text=True, timeout=900)
            out, rc = p.stdout, p.returncode
        except subprocess.TimeoutExpired as e:
            out, rc = (e.stdout.decode() if isinstance(e.stdout, bytes) else (e.stdout or '')), 124
            subprocess.run(['pkill', '-f', d], stdout=subprocess.DEVNULL, stderr=subprocess.DEVNULL)
        r = TLCResult(out, rc, time.time() - t)
        if rc == 124:
            r.error = 'timeout'
        shutil.rmtree(os.path.join(d, 'md'), ignore_errors=True)
        return name, r
    with ThreadPoolExecutor(max_workers=5) as ex:
        res = dict(ex.map(one, jobs))
    return res


def flood_jobs(c, thorough):
    """the TLC runs about floods / the capacity: exhaustive checks, spec-level mutants, scenario generation"""
    jobs = []
    for i, p in enumerate(S1_FLOOD + (S1_FLOOD_THOROUGH if thorough else [])):
        jobs.append(('s1-%d' % i, mc_cfg(*p[:12], **kw_of(p)), []))
    for i, (k, mutant, invs) in enumerate(SPEC_MUTANTS):
        jobs.append(('mutant-%d' % i, inv_cfg(S1_FLOOD[k], mutant, invs), []))
    for i, p in enumerate(GEN_FLOOD):
        jobs.append(('gen-%d' % i, mc_cfg(*p[:12], **dict(kw_of(p), emit=True, inv=False)), []))
    for i, p in enumerate(SIM_FLOOD):
        jobs.append(('sim-%d' % i, mc_cfg(*p[:12], **dict(kw_of(p), emit=True, inv=False)),
                     ['-simulate', 'num=%d' % (100 if not thorough else 1000), '-depth', '24', '-seed', str(c.seed)]))
    # several rules on one resource replaced under traffic (spec/HotParamQpsReload.tla)
    jobs.append(('rl-s1', reload_cfg(maxops=5 if not thorough else 6), [], 'HotParamQpsReload_MC'))
    jobs.append(('rl-mutant-own', reload_cfg(maxops=5, mutant='keepcandidate'), [], 'HotParamQpsReload_MC'))
    jobs.append(('rl-mutant-e3', reload_cfg(maxops=5, mutant='keepcandidate', invs='TypeOK E3OK'), [], 'HotParamQpsReload_MC'))
    jobs.append(('rl-gen', reload_cfg(maxops=4, emit=True), [], 'HotParamQpsReload_MC'))
    return jobs


def reload_cfg(maxops=5, mutant='', invs='TypeOK OwnBooks E3OK', emit=False):
    return """SPECIFICATION Spec
CONSTANTS
  Values = {"a", "b"}
  RuleSets <- MCRuleSets
  D = 1000
  B = 0
  Batches = {1}
  Steps = {500, 1001}
  MaxT = 1501
  MaxOps = %d
  Mutant = "%s"
VIEW view
%s
CHECK_DEADLOCK FALSE
""" % (maxops, mutant, 'ACTION_CONSTRAINT Emit' if emit else 'INVARIANTS ' + invs)


def reload_s1_results(c, res):
    r = res['rl-s1']
    if r.error:
        raise MachineryError('TLC failed on HotParamQpsReload_MC: %s\n%s' % (r.error, r.out[-3000:]))
    c.cov['states'] += r.distinct
    c.cov['transitions'] += r.generated
    c.cov['tlc_runs'].append(dict(module='HotParamQpsReload_MC', cfg='exhaustive', generated=r.generated, distinct=r.distinct, depth=r.depth,
                                  wall_s=round(r.wall, 1), args='', result='ok' if r.completed else (r.violated or 'deadlock')))
    c.log('S1 HotParamQpsReload_MC (two selectors, rule lists replaced under traffic): %d distinct states, %d transitions, depth %d, %.0fs -> %s' % (
        r.distinct, r.generated, r.depth, r.wall, 'no error' if r.completed else 'VIOLATED ' + str(r.violated)))
    if not r.completed:
        c.inconclusive.append('HotParamQpsReload.tla: %s violated - the reload algorithm no longer gives every rule its own books' % r.violated)
    rej = {}
    for name, level in (('rl-mutant-own', 'all invariants'), ('rl-mutant-e3', 'decision-level invariant only')):
        m = res[name]
        if m.error:
            raise MachineryError('TLC failed on spec mutant keepcandidate: %s\n%s' % (m.error, m.out[-1500:]))
        c.cov['tlc_runs'].append(dict(module='HotParamQpsReload_MC', cfg='mutant keepcandidate (%s)' % level, generated=m.generated, distinct=m.distinct,
                                      depth=m.depth, wall_s=round(m.wall, 1), args='', result=m.violated or 'NOT REJECTED'))
        if not m.violated:
            c.inconclusive.append('spec-level mutant keepcandidate (%s) is NOT rejected by TLC' % level)
        rej['keepcandidate (%s)' % level] = m.violated
    c.cov['spec_mutants_reload_rejected_by'] = rej
    c.log('S1 spec-level mutant "the taken controller stays a candidate" rejected by: %s' % rej)


# selectors of the two abstract argument positions: sel 0 = first of two arguments, sel 1 = second
SEL0 = [dict(idx=0, key=''), dict(idx=-2, key=''), dict(idx=-2, key='k'), dict(idx=0, key='k')]     # (a positive index together with a key is an invalid rule)
SEL1 = [dict(idx=1, key=''), dict(idx=-1, key='')]


def build_reload(rng, tr, ops, B=0, D=1000):
    """ops: ('reload', t, [(sel, T), ..]) / ('req', t, x, y, b) -> driver scenario (the first op is a reload)"""
    s0, s1 = rng.choice(SEL0), rng.choice(SEL1)
    rl = lambda rules: [dict(dict(s0 if sel == 0 else s1), T=T) for sel, T in rules]
    cf = dict(mode='reject', T=0, B=B, D=D, MQ=0, items={}, cap=default_cap(D))
    out = []
    for o in ops:
        if o[0] == 'reload':
            if not out:
                out.append(dict(op='mnew', tr=tr, ty=rng.choice(TYPES), cf=cf, t=0, rules=rl(o[2])))
            else:
                out.append(dict(op='mreload', t=o[1], rules=rl(o[2])))
        else:
            _, t, x, y, b = o
            atts = {'k': x} if s0['key'] else {}
            if rng.random() < 0.2:
                atts['other'] = y
            out.append(dict(op='mreq', t=t, args=[x, y], atts=atts, b=b))
    return out


def reload_of_hist(hist):
    ops = []
    for o in hist:
        if o['op'] == 'mreload':
            ops.append(('reload', o['t'], [(r['sel'], r['T']) for r in o['rules']]))
        else:
            ops.append(('req', o['t'], o['x'], o['y'], o['b']))
    return ops


def random_reload(rng, tr):
    D = rng.choice([1000, 1000, 2000])
    B = rng.choice([0, 0, 1])
    vals = ['a', 'b', 'c', 'd', 'e'][:rng.randint(2, 5)]
    def rules():
        x = rng.random()
        T = lambda: rng.choice([1, 1, 2, 3])
        if x < 0.25:
            return [(rng.choice([0, 1]), T())]
        return rng.choice([[(0, T()), (1, T())], [(1, T()), (0, T())]])
    t = 0
    ops = [('reload', 0, rules())]
    nre = rng.randint(1, 2)
    n = rng.randint(8, 20)
    at = set(rng.sample(range(1, n), nre))
    for i in range(n):
        if i in at:
            ops.append(('reload', t, rules()))
        x, y = rng.choice(vals), rng.choice(vals)
        if rng.random() < 0.4 and len(ops) > 1 and ops[-1][0] == 'req':
            x, y = ops[-1][3], ops[-1][2]           # the previous request's values in the other positions
        ops.append(('req', t, x, y, rng.choice([1, 1, 1, 2])))
        t += rng.choice([0, 0, 0, 1, 200, D // 2, D + 1, 3 * D])
    return build_reload(rng, tr, ops, B, D)


def directed_reload(rng, tr):
    """one rule in force and used; ONE push changes it and adds a rule on the other argument; then values that cross positions"""
    D = 1000
    s_old = rng.choice([0, 1])
    T2 = rng.choice([1, 1, 2])
    new = [(s_old, rng.choice([1, 3])), (1 - s_old, T2)]
    if rng.random() < 0.4:
        new.reverse()
    ops = [('reload', 0, [(s_old, 2)]), ('req', 0, 'e', 'd', 1)]
    t = rng.choice([0, 1, 3000])
    ops.append(('reload', t, new))
    ops += [('req', t, 'a', 'b', 1), ('req', t, 'b', 'a', 1), ('req', t, 'a', 'c', 1)]
    t += 3000
    for i in range(rng.randint(2, 4)):
        ops.append(('req', t, 'de'[i % 2], 'c', 1))     # c only ever in the second position ...
        t += 200
    ops.append(('req', t, 'c', 'b', 1))                 # ... then in the first
    return build_reload(rng, tr, ops, 0, D)


def reload_selftest(c, tp, bad):
    """refuse the first request of clean traces in the name of the first rule: every value is idle for ever -> E3"""
    out, want = [], set()
    for tr, lines in sorted(split_traces_m(read_ndjson(tp)).items()):
        if tr in bad or len(want) >= 30:
            continue
        e = next((x for x in lines if x['op'] == 'mreq'), None)
        if not e or not e['ok'] or not (1 <= e['b'] <= lines[0]['rules'][0]['T']):
            continue
        e['ok'], e['blk'] = False, 1
        want.add(tr)
        out += lines
    if len(want) < 5:
        c.inconclusive.append('binding self-test (reload traces): fewer than 5 clean traces to corrupt')
        return
    cp = os.path.join(c.scratch, 'corrupt-reload.ndjson')
    write_ndjson(cp, out)
    mism, consumed, r = c.validate('HotParamQps_Trace', cp, len(out))
    got = {m[0]: json.loads(m[2])['why'] for m in mism}
    if consumed != len(out) or set(got) != want or set(got.values()) != {'E3'}:
        raise MachineryError('binding self-test (reload traces) failed: wanted E3 for %s, got %s' % (sorted(want), got))
    c.cov['binding_selftest_reload'] = '%d corrupted traces (first request refused in the name of the first rule), all rejected with E3' % len(want)
    c.log('binding self-test (reload traces): %d corrupted traces, all rejected with E3' % len(want))


def split_traces_m(lines):
    out, cur = {}, None
    for l in lines:
        if l.get('op') in ('new', 'mnew'):
            cur = l['tr']
            out[cur] = []
        out[cur].append(l)
    return out


def flood_s1_results(c, res, thorough):
    """S1 part of the side-by-side runs: exhaustive flood models hold, wrongly sized caches are rejected"""
    for i, p in enumerate(S1_FLOOD + (S1_FLOOD_THOROUGH if thorough else [])):
        r = res['s1-%d' % i]
        if r.error:
            raise MachineryError('TLC failed on HotParamQps_MC %s: %s\n%s' % (p[:7], r.error, r.out[-3000:]))
        c.cov['states'] += r.distinct
        c.cov['transitions'] += r.generated
        c.cov['tlc_runs'].append(dict(module='HotParamQps_MC', cfg='flood %s floods=%s' % (list(p[:7]), kw_of(p).get('floods')), generated=r.generated,
                                      distinct=r.distinct, depth=r.depth, wall_s=round(r.wall, 1), args='',
                                      result='ok' if r.completed else (r.violated or 'deadlock')))
        c.log('S1 HotParamQps_MC flood %s floods=%s: %d distinct states, %d transitions, depth %d, %.0fs -> %s' % (
            p[:7], kw_of(p).get('floods'), r.distinct, r.generated, r.depth, r.wall, 'no error' if r.completed else 'VIOLATED ' + str(r.violated)))
        if not r.completed:
            c.inconclusive.append('HotParamQps.tla: %s violated for %s with floods - the algorithm layer no longer satisfies the property' % (r.violated, p[:7]))
    rejected = {}
    for i, (k, mutant, invs) in enumerate(SPEC_MUTANTS):
        p, r = S1_FLOOD[k], res['mutant-%d' % i]
        if r.error:
            raise MachineryError('TLC failed on spec mutant %s of %s: %s\n%s' % (mutant, p[:7], r.error, r.out[-1500:]))
        level = 'all invariants' if invs == INVARIANTS else 'decision-level invariants only'
        c.cov['tlc_runs'].append(dict(module='HotParamQps_MC', cfg='mutant %s %s (%s)' % (mutant, list(p[:7]), level), generated=r.generated,
                                      distinct=r.distinct, depth=r.depth, wall_s=round(r.wall, 1), args='', result=r.violated or 'NOT REJECTED'))
        if not r.violated:
            c.inconclusive.append('spec-level mutant %s (%s, %s) is NOT rejected by TLC: the capacity invariants are too weak' % (mutant, p[:7], level))
        rejected['%s %s/cap %s (%s)' % (mutant, p[0], p[6] or 'default', level)] = r.violated
    c.cov['spec_mutants_rejected_by'] = rejected
    c.log('S1 spec-level mutants (cache sizing) rejected by: %s' % rejected)


def check(c, tier, replay):
    drv = c.build('c05')
    if replay:
        s = read_ndjson(replay)
        mism, tp = run_and_validate(c, drv, [s], 'replay')
        for tr, line, exp in mism:
            c.violation(describe(json.loads(exp), open(tp).read().splitlines()[line - 1]), replay)
        c.cov['states'] = c.cov['transitions'] = 1
        c.sample(s[:6])
        return
    thorough = tier == 'thorough'
    # S1 ---------------------------------------------------------------------------------
    # (the runs about floods - exhaustive checks, spec mutants, scenario generation - go on side by side in the background)
    ex = ThreadPoolExecutor(max_workers=1)
    fut = ex.submit(tlc_many, c, flood_jobs(c, thorough))
    for p in (S1_THOROUGH if thorough else S1_QUICK):
        r = c.model_check('HotParamQps_MC', cfg_text=mc_cfg(*p[:12], **kw_of(p)), workers=6, timeout=3000)
        if not r.completed:
            c.inconclusive.append('HotParamQps.tla: %s violated for %s - the algorithm layer no longer satisfies the envelopes' % (r.violated, p[:7]))
    # S2 ---------------------------------------------------------------------------------
    scns, tr = [], 0
    for p in (GEN_QUICK if not thorough else GEN_QUICK + S1_QUICK):
        r = c.tlc('HotParamQps_MC', cfg_text=mc_cfg(*p[:12], **dict(kw_of(p), emit=True, inv=False)), workers=4, timeout=1500, count=False)
        if r.error:
            raise MachineryError('scenario generation failed: %s' % r.error)
        hs = r.json_prints()
        keep = maximal(hs)
        cap = 500 if not thorough else 8000
        if len(keep) > cap:
            keep = c.rng.sample(keep, cap)
        for hist in keep:
            tr += 1
            scns.append(build(c.rng, tr, cf_of(*p[:7]), of_hist(hist)))
        c.log('S2 transition cover %s: %d transitions -> %d scenarios' % (p[:7], len(hs), len(keep)))
    cover_n = len(scns)
    for p in SIM:
        num = 100 if not thorough else 1000
        r = c.tlc('HotParamQps_MC', cfg_text=mc_cfg(*p[:12], **dict(kw_of(p), emit=True, inv=False)), workers=1, timeout=900, count=False,
                  args=['-simulate', 'num=%d' % num, '-depth', '24', '-seed', str(c.seed)])
        keep = maximal(r.json_prints())
        if len(keep) > num * 3:     # (simulation mode prints every candidate successor of every step)
            keep = c.rng.sample(keep, num * 3)
        for hist in keep:
            tr += 1
            scns.append(build(c.rng, tr, cf_of(*p[:7]), of_hist(hist)))
        c.log('S2 TLC simulation %s: %d behaviours' % (p[:7], len(keep)))
    # the side-by-side runs: S1 results, then their scenarios (same treatment as above)
    fres = fut.result()
    ex.shutdown()
    flood_s1_results(c, fres, thorough)
    reload_s1_results(c, fres)
    c.cov['exhaustive'] = True
    for kind, table in (('gen', GEN_FLOOD), ('sim', SIM_FLOOD)):
        for i, p in enumerate(table):
            r = fres['%s-%d' % (kind, i)]
            if r.error:
                raise MachineryError('scenario generation (floods) failed: %s\n%s' % (r.error, r.out[-1500:]))
            keep = maximal(r.json_prints())
            cap = (500 if not thorough else 8000) if kind == 'gen' else (300 if not thorough else 3000)
            if len(keep) > cap:
                keep = c.rng.sample(keep, cap)
            cover_n += len(keep) if kind == 'gen' else 0
            for hist in keep:
                tr += 1
                scns.append(build(c.rng, tr, cf_of(*p[:7]), of_hist(hist)))
            c.log('S2 %s with floods %s: %d scenarios' % ('transition cover' if kind == 'gen' else 'TLC simulation', p[:7], len(keep)))
    nrand = 800 if not thorough else 8000
    rs = []
    for _ in range(nrand):
        tr += 1
        rs.append(random_scenario(c, tr))
    # the flood family: large numbers of distinct values relative to the configured capacity
    fs = []
    for rep in range(1 if not thorough else 6):
        for pcap, D in FLOOD_CAPS:
            for mode in ('reject', 'throttle'):
                for variant in FLOOD_VARIANTS:
                    tr += 1
                    fs.append(flood_scenario(c.rng, tr, mode, pcap, D, variant))
    c.cov['flood_scenarios'] = len(fs)
    c.cov['flood_capacities'] = ['%s/%ds' % (pc or 'default', D // 1000) for pc, D in FLOOD_CAPS]
    # several rules on one resource, replaced under traffic: transition cover of HotParamQpsReload, random, the directed shape
    rl = []
    r = fres['rl-gen']
    if r.error:
        raise MachineryError('scenario generation (reload) failed: %s\n%s' % (r.error, r.out[-1500:]))
    keep = maximal(r.json_prints())
    keep = [x for x in keep if any(o['op'] == 'mreq' for o in x)]
    if len(keep) > (600 if not thorough else 6000):
        keep = c.rng.sample(keep, 600 if not thorough else 6000)
    for hist in keep:
        tr += 1
        rl.append(build_reload(c.rng, tr, reload_of_hist(hist)))
    for _ in range(300 if not thorough else 3000):
        tr += 1
        rl.append(random_reload(c.rng, tr))
    for _ in range(40 if not thorough else 200):
        tr += 1
        rl.append(directed_reload(c.rng, tr))
    c.cov['reload_scenarios'] = len(rl)
    c.log('S2 reload scenarios: %d transition cover + random + directed' % len(rl))
    # S3 + S4 ----------------------------------------------------------------------------
    selftested = False
    nontriv = set()
    for tag, group in (('tlc', scns), ('flood', fs), ('rand', rs), ('reload', rl)):
        for i in range(0, len(group), 2500):
            part = group[i:i + 2500]
            mism, tp = run_and_validate(c, drv, part, '%s%d' % (tag, i))
            nontriv |= count_nontrivial(part, tp)
            if tag == 'reload' and not mism and i == 0:
                reload_selftest(c, tp, set())
            if tag == 'flood':
                if not mism:
                    binding_selftest(c, tp, set(), key='binding_selftest_flood_family')
                st = flood_stats(tp)
                for k, x in zip(('flood_requests_judged_below_capacity', 'flood_requests_below_capacity_limited', 'flood_requests_at_or_above_capacity'), st):
                    c.cov[k] = c.cov.get(k, 0) + x
                c.log('flood family: %d requests of a tracked value arrived with a flood in its recency rank and the rank below the capacity '
                      '(%d of them rejected or delayed), %d with the rank at or above it (either outcome)' % st)
            if not selftested:
                binding_selftest(c, tp, {m[0] for m in mism})
                selftested = True
            c.cov['mismatching_traces'] = c.cov.get('mismatching_traces', 0) + len(mism)
            handle_mismatches(c, drv, part, mism, tp, tag)
    c.cov['distinct_nontrivial'] = len(nontriv)
    c.cov['rule'] = ('scenarios = one per transition of bounded HotParamQps instances (%d) + TLC random simulation + seeded random '
                     'multi-value arrival histories + the flood family (hot value / n fresh values / hot value again, n around the configured capacity, '
                     'capacities around the library\'s internal constants); non-trivial = distinct scenario in which the real code rejected or delayed at least one '
                     'request (the rule actually shaped traffic); conformance_mismatches = traces in which the real decision differs from the '
                     'transcribed algorithm layer (informational)' % cover_n)
    c.sample(scns[len(scns) // 2][:8])
    c.sample(rs[0][:8])
    c.sample(fs[len(fs) // 2][:8])
    c.assumptions += ['E1, E2, P1 and Independence are demanded for a value while the configured parameter capacity is not exceeded FOR IT: until one '
                      'of its requests arrives after at least `capacity` distinct other values were used since its last admitted request (from then on '
                      'the value may legitimately have been restarted; this is implied by - and demands more than - "no more distinct values seen '
                      'than the capacity"); E3, P2, NoArg always',
                      'the configured capacity is Rule.ParamsMaxCapacity when positive, however large, otherwise min(20000, 4000 x DurationInSec)',
                      'every fresh value of a flood is admitted at once when the general threshold is >= 1 (a value never seen is idle for ever / its '
                      'own sub-history is a single request)',
                      'a value never seen before counts as idle (E3); idle = time since the previous request for the value, whatever its outcome',
                      'with threshold 0 the pacing distance batch*duration/threshold is unbounded: at most one request may ever be scheduled',
                      'when a rule has both an attachment key and an index, the key has priority and the index is the fall-back (Rule.ParamKey doc)',
                      'Sleep does not advance the virtual clock: arrival instants are the scenario\'s, waits are recorded',
                      'sequential callers (one request at a time); argument values are hashable',
                      'TLC model checking is exhaustive only for the bounded instances listed in tlc_runs']
    if thorough: import stages; stages.run_stage(c, 'LRU', 'lru_stage')   # the cache "capacity not exceeded" rests on (checks/LRU.py, spec/Lru.tla)


main('C05', check)
