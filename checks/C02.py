"""C02 - a reject-mode QPS flow rule admits a request iff window + batch <= threshold.

S1  TLC checks FlowQps.tla (the iff, Cap, no quota for rejected, first failing rule reported) for single rules over
    every kind of statistic window, two rules per resource and associated rules, and AdmitPath.tla (k = 2, 3 callers
    inside the admission path: excess <= (k-1) * max batch over ALL interleavings).  Deliberately broken variants of
    both specs must violate the invariants (vacuity self-test).
S2  scenarios: (a) one per transition of bounded FlowQps instances, (b) TLC random simulation of a larger instance,
    (c) seeded random histories over realistic intervals / thresholds / batches with gaps on bucket and cycle
    boundaries, (d) every complete schedule TLC emits for AdmitPath, replayed with the goroutine gate.
S3  harness/cmd/c02 replays them on the real code (flow.LoadRules, api.Entry under the virtual clock; gated goroutines
    parked at the yield point "chain.checked") and records decision, block type, triggered rule and value.
S4  FlowQps_Trace.tla (TLC) judges every recorded decision; the bucket length of a rule's window is left open (any
    divisor of the interval that is consistent with the whole trace).
"""
import json, os, sys
import vlib
from vlib import main, write_ndjson, read_ndjson, MachineryError

KEY_ASSOC = 'C02/assoc-rule+standalone-window/ref-traffic-not-counted'
ALT_CFGS = ['1,1000,20,10000', '4,2000,20,10000', '5,5000,10,10000']
INTERVALS = [0, 250, 700, 1000, 2000, 2500, 3000, 5000, 10000, 20000]
THRESHOLDS = [(0, 1), (1, 2), (1, 1), (3, 2), (2, 1), (5, 2), (3, 1), (4, 1), (5, 1), (7, 1), (13, 10), (1, 4), (7, 2)]


# ------------------------------------------------------------------ geometry (transcription of flow.generateStatFor)
def geometry(iv):
    """(bucket length, interval) in ms of the statistic window bound to a rule with StatIntervalInMs = iv"""
    if iv in (0, 1000):
        return 500, 1000
    if 500 <= iv <= 10000 and iv % 500 == 0:
        return 500, iv
    return iv, iv


def standalone(iv):
    return not (iv in (0, 1000) or (500 <= iv <= 10000 and iv % 500 == 0 and 10000 % iv == 0))


# ------------------------------------------------------------------ S1
def mc_cfg(cfgs, res, b, maxt, maxops, mut='none', steps='MCSteps', check=True, extra=''):
    return """SPECIFICATION Spec
CONSTANTS
  Res = %s
  RuleCfgs <- %s
  B = %d
  GN = 20
  Batches = {0, 1, 2, 3}
  Steps <- %s
  MaxT = %d
  MaxOps = %d
  Mut = "%s"
VIEW view
%s
CHECK_DEADLOCK FALSE
%s""" % (res, cfgs, b, steps, maxt, maxops, mut,
         'INVARIANTS TypeOK Iff FirstRuleReported Cap\nPROPERTIES NoQuotaForRejected AdmittedRecorded' if check else '', extra)


def reload_cfg(cfgs, maxt, maxops, mut='none', check=True, invs='TypeOK Iff FirstRuleReported OwnWindow WindowTruth SinceSane', extra=''):
    return """SPECIFICATION Spec
CONSTANTS
  Res = {1}
  RuleCfgs <- %s
  B = 1
  GN = 20
  Batches = {1, 2}
  Steps <- MCSteps
  MaxT = %d
  MaxOps = %d
  MaxReloads = 1
  Mut = "%s"
VIEW view
%s
CHECK_DEADLOCK FALSE
%s""" % (cfgs, maxt, maxops, mut, ('INVARIANTS %s\nPROPERTIES KeptOnReload' % invs) if check else '', extra)


def path_cfg(k, mode, ts, w0s, bs, invs='TypeOK Bound NoSpurious Conserved Sequential', extra=''):
    return """SPECIFICATION Spec
CONSTANTS
  K = %d
  Mode = "%s"
  Ts <- %s
  W0s = %s
  Bs = %s
%s
CHECK_DEADLOCK FALSE
%s""" % (k, mode, ts, w0s, bs, ('INVARIANTS ' + invs) if invs else '', extra)


def model_check(c, thorough):
    runs = [('MCSingleB1', '{1}', 1, 9, 4), ('MCSingleB2', '{1}', 2, 13, 3), ('MCDoubleB1', '{1}', 1, 8, 4),
            ('MCAssocB1', '{1, 2}', 1, 6, 3)]
    if thorough:
        runs = [('MCSingleB1', '{1}', 1, 12, 5), ('MCSingleB2', '{1}', 2, 15, 4), ('MCDoubleB1', '{1}', 1, 10, 5),
                ('MCAssocB1', '{1, 2}', 1, 8, 4)]
    for cfgs, res, b, maxt, maxops in runs:
        r = c.model_check('FlowQps_MC', cfg_text=mc_cfg(cfgs, res, b, maxt, maxops), workers=8, timeout=1500)
        if not r.completed:
            c.inconclusive.append('FlowQps.tla: %s violated for %s - the design model contradicts the property' % (r.violated, cfgs))
    for k, bs in ((2, '{0, 1, 2, 3}'), (3, '{0, 1, 2}' if not thorough else '{0, 1, 2, 3}')):
        r = c.model_check('AdmitPath_MC', cfg_text=path_cfg(k, 'qps', 'MCTsQps', '{0, 1, 2}', bs), workers=8, timeout=1500)
        if not r.completed:
            c.inconclusive.append('AdmitPath.tla (qps, K=%d): %s violated' % (k, r.violated))
    # rule list replaced under traffic: every standalone window is fed by exactly one rule, unchanged rules keep theirs
    r = c.model_check('FlowReload_MC', cfg_text=reload_cfg('MCRel', 7 if not thorough else 9, 4 if not thorough else 5), workers=8, timeout=1500)
    if not r.completed:
        c.inconclusive.append('FlowReload.tla: %s violated - the design model contradicts the property' % r.violated)
    c.cov['exhaustive'] = True
    # vacuity self-test: broken designs must be caught by the same invariants
    caught = []
    for mut, invs, want in (('sharewin', 'TypeOK Iff FirstRuleReported', ('Iff', 'FirstRuleReported')), ('sharewin', 'OwnWindow', ('OwnWindow',)),
                            ('allfresh', 'TypeOK', ('KeptOnReload',))):
        r = c.tlc('FlowReload_MC', cfg_text=reload_cfg('MCRel', 7, 4, mut=mut, invs=invs), workers=4, timeout=600, count=False)
        if r.violated not in want:
            raise MachineryError('vacuity self-test: broken reload design Mut=%s was not caught by %s (%s)' % (mut, invs, r.violated or r.error))
        caught.append('reload/%s->%s' % (mut, r.violated))
    for mut, cfgs, res, want in (('ge', 'MCSingleB1', '{1}', 'Iff'), ('countblocked', 'MCSingleB1', '{1}', None),
                                 ('own', 'MCAssocB1', '{1, 2}', 'Iff')):
        r = c.tlc('FlowQps_MC', cfg_text=mc_cfg(cfgs, res, 1, 6, 3, mut=mut), workers=4, timeout=600, count=False)
        if not r.violated or (want and r.violated != want):
            raise MachineryError('vacuity self-test: broken design Mut=%s was not caught (%s)' % (mut, r.violated or r.error))
        caught.append('%s->%s' % (mut, r.violated))
    r = c.tlc('AdmitPath_MC', cfg_text=path_cfg(3, 'qps', 'MCTsGen', '{0, 1}', '{1, 2}', invs='BoundTooTight'), workers=4,
              timeout=600, count=False)
    if r.violated != 'BoundTooTight':
        raise MachineryError('vacuity self-test: the (k-1)*maxBatch bound is not tight in AdmitPath (%s)' % (r.violated or r.error))
    caught.append('bound-1->BoundTooTight')
    c.cov['spec_mutants_caught'] = caught
    c.log('S1 vacuity self-test: broken designs caught: ' + ', '.join(caught))


# ------------------------------------------------------------------ S2
def maximal(hs):
    """drop histories that are proper prefixes of another history"""
    keys = sorted(json.dumps(x, sort_keys=True)[:-1] for x in hs)
    out = []
    for i, k in enumerate(keys):
        if i + 1 < len(keys) and keys[i + 1].startswith(k) and (keys[i + 1] == k or keys[i + 1][len(k)] == ','):
            continue
        out.append(json.loads(k + ']'))
    return out


def mkrule(res, num, den, iv_ticks, ref, unit):
    bl_ms, _ = geometry(iv_ticks * unit)
    assert bl_ms % unit == 0
    return dict(res=res, num=num, den=den, I=iv_ticks, ref=ref, bl=bl_ms // unit)


def decorate(hist, tr, unit, nres):
    """TLC history (ticks) -> driver scenario"""
    out = []
    for o in hist:
        o = dict(o)
        if o['op'] == 'new':
            rules = [mkrule(r['res'], r['T'][0], r['T'][1], r['I'], r['ref'], unit) for r in o['rules']]
            o = dict(op='new', tr=tr, t=o['t'], unit=unit, nres=nres, rules=rules)
        elif o['op'] == 'reload':
            o = dict(op='reload', per=0, rules=[mkrule(r['res'], r['T'][0], r['T'][1], r['I'], r['ref'], unit) for r in o['rules']])
        out.append(o)
    return out


def tlc_scenarios(c, thorough, tr):
    scns = []
    cap = 1200 if not thorough else 30000
    gens = [('MCGenB1', '{1, 2}', 1, 4, 3), ('MCGenB2', '{1}', 2, 9, 3)]
    if thorough:
        gens = [('MCGenB1', '{1, 2}', 1, 6, 4), ('MCGenB2', '{1}', 2, 12, 4)]
    for cfgs, res, b, maxt, maxops in gens:
        cfg = mc_cfg(cfgs, res, b, maxt, maxops, check=False, extra='ACTION_CONSTRAINT Emit\n')
        r = c.tlc('FlowQps_MC', cfg_text=cfg, workers=4, timeout=900, count=False)
        if r.error:
            raise MachineryError('scenario generation failed: %s\n%s' % (r.error, r.out[-1500:]))
        hs = r.json_prints()
        keep = maximal(hs)
        n = len(keep)
        if len(keep) > cap:
            keep = c.rng.sample(keep, cap)
        for hist in keep:
            tr += 1
            scns.append(decorate(hist, tr, 500 // b, 2))
        c.log('S2 transition cover %s: %d transitions -> %d maximal scenarios, %d kept' % (cfgs, len(hs), n, len(keep)))
    # one scenario per transition of a bounded FlowReload instance (a reload between bursts of requests)
    cfg = reload_cfg('MCRelGen', 6 if not thorough else 7, 4 if not thorough else 5, check=False, extra='ACTION_CONSTRAINT Emit\n')
    r = c.tlc('FlowReload_MC', cfg_text=cfg, workers=4, timeout=900, count=False)
    if r.error:
        raise MachineryError('reload scenario generation failed: %s\n%s' % (r.error, r.out[-1500:]))
    hs = [x for x in r.json_prints() if any(o['op'] == 'reload' for o in x)]
    keep = maximal(hs)
    n = len(keep)
    if len(keep) > cap // 2:
        keep = c.rng.sample(keep, cap // 2)
    for hist in keep:
        tr += 1
        scns.append(decorate(hist, tr, 500, 2))
    c.log('S2 transition cover FlowReload: %d transitions with a reload -> %d maximal scenarios, %d kept' % (len(hs), n, len(keep)))
    cover = len(scns)
    num = 200 if not thorough else 3000
    cfg = mc_cfg('MCSimB1', '{1, 2}', 1, 120, 14, steps='MCStepsLong', check=False, extra='ACTION_CONSTRAINT Emit\n')
    r = c.tlc('FlowQps_MC', cfg_text=cfg, workers=1, timeout=900, count=False,
              args=['-simulate', 'num=%d' % num, '-depth', '22', '-seed', str(c.seed)])
    keep = maximal(r.json_prints())
    if not keep:
        raise MachineryError('TLC simulation produced no behaviours\n' + r.out[-1500:])
    for hist in keep:
        tr += 1
        scns.append(decorate(hist, tr, 500, 2))
    c.log('S2 TLC simulation: %d behaviours' % len(keep))
    return scns, cover, tr


def random_scenarios(c, n, tr):
    rng = c.rng
    scns = []
    for _ in range(n):
        tr += 1
        nres = 2
        rules = []
        kind = rng.random()
        nrules = rng.choice([1, 1, 1, 2, 2, 3])
        for j in range(nrules):
            iv = rng.choice(INTERVALS) if rng.random() < 0.85 else rng.choice([500, 1500, 333, 12000, 7500, 999, 4000, 60000])
            num, den = rng.choice(THRESHOLDS)
            res = 1 if (j == 0 or rng.random() < 0.8) else 2
            ref = 0
            if kind < 0.3 and rng.random() < 0.6:
                ref = 3 - res           # associated rule: limited by the other resource
            rules.append(mkrule(res, num, den, iv, ref, 1))
            if ref == 0 and rng.random() < 0.15:
                rules[-1]['leftref'] = 3 - res      # own-resource rule with a left-over RefResource (must be ignored)
        if rng.random() < 0.15:
            # a pacing rule (throttling, unbounded queue) somewhere in the list of resource 1: the reject rules behind it are reached later
            rules.insert(rng.randint(0, len(rules)), dict(res=1, num=1000, den=1, I=1000, ref=0, bl=500, pace=True))
        s = [dict(op='new', tr=tr, t=rng.choice([1, 499, 500, 501, 777, 1000, 9999, rng.randint(1, 30000)]), unit=1, nres=nres, rules=rules)]
        t = s[0]['t']
        rtypes = rng.choice([None, None, [1], [2, 3], [0, 1, 4]])
        assoc = any(r['ref'] for r in rules)
        for _ in range(rng.randint(12, 40)):
            if rng.random() < 0.62:
                res = 1 if rng.random() < (0.55 if assoc else 0.85) else 2
                s.append(dict(op='req', res=res, b=rng.choice([0, 1, 1, 1, 1, 2, 2, 3])))
                if rtypes:
                    s[-1]['rt'] = rng.choice(rtypes)       # the resource is entered with a resource type (as the adapters do)
            else:
                r = rng.choice(rules)
                bl, iv = geometry(r['I'])
                nxt = bl - t % bl
                d = rng.choice([0, 1, nxt - 1, nxt, nxt + 1, bl, bl - 1, iv - 1, iv, iv + 1, iv - bl, iv - bl + nxt, 250, 500,
                                10000 - 500, 10000, 10001, 2 * iv, 3 * max(iv, 10000) + 1, rng.randint(0, 2 * iv), rng.randint(0, 1200)])
                d = max(0, d)
                s.append(dict(op='tick', d=d))
                t += d
        if rng.random() < 0.4:
            s = with_reloads(rng, s, rules)
        scns.append(s)
    return scns, tr


def reload_list(rng, rules, per):
    """a new rule list derived from the one in force: thresholds changed, a rule split in two (same statistic parameters),
    rules dropped / added / reordered.  No two rules of the new list are identical; per > 0: only that resource changes."""
    def key(r):
        return (r['res'], r['num'] * 1000 // r['den'], r['I'], r['ref'])
    mine = [dict(r) for r in rules if per in (0, r['res'])]
    rest = [dict(r) for r in rules if per not in (0, r['res'])]
    for _ in range(rng.choice([1, 1, 2, 3])):
        kind = rng.choice(['split', 'split', 'change', 'change', 'drop', 'add', 'reorder', 'same'])
        if kind == 'split' and mine:
            j = rng.randrange(len(mine))
            a, b = dict(mine[j]), dict(mine[j])
            (a['num'], a['den']), (b['num'], b['den']) = rng.sample(THRESHOLDS, 2)
            mine[j:j + 1] = [a, b]
        elif kind == 'change' and mine:
            r = rng.choice(mine)
            r['num'], r['den'] = rng.choice(THRESHOLDS)
        elif kind == 'drop' and len(mine) > 1:
            mine.pop(rng.randrange(len(mine)))
        elif kind == 'add':
            num, den = rng.choice(THRESHOLDS)
            iv = rng.choice([r['I'] for r in rules] + INTERVALS)
            mine.insert(rng.randint(0, len(mine)), mkrule(per or rng.choice([1, 1, 2]), num, den, iv, 0, 1))
        elif kind == 'reorder':
            rng.shuffle(mine)
    out, seen = [], set()
    for r in mine:
        if key(r) not in seen:
            seen.add(key(r))
            out.append(r)
    return out + rest       # (the rules of the other resources stay as they are, duplicates included)


def with_reloads(rng, s, rules):
    """insert one or two reloads (always one clock tick after the previous operation) into a random history"""
    at = sorted(rng.sample(range(2, len(s)), min(len(s) - 2, rng.choice([1, 1, 2]))))
    out, cur = [], rules
    for i, o in enumerate(s):
        if i in at:
            per = rng.choice([0, 0, 1])
            nxt = reload_list(rng, cur, per)
            if nxt:
                out.append(dict(op='tick', d=rng.choice([1, 1, 2, 250, 499, 1000])))
                out.append(dict(op='reload', per=per, rules=nxt))
                cur = nxt
        out.append(o)
    return out


def reload_directed(tr):
    """reloads whose new rules all keep the statistic parameters of ONE old rule with a standalone / reused window"""
    out = []
    for iv in (3000, 700, 250, 20000, 2000, 0):
        for per in (0, 1):
            tr += 1
            old = [mkrule(1, 4, 1, iv, 0, 1)]
            new = [mkrule(1, 6, 1, iv, 0, 1), mkrule(1, 8, 1, iv, 0, 1)]
            s = [dict(op='new', tr=tr, t=1, unit=1, nres=2, rules=old)]
            s += [dict(op='req', res=1, b=1)] * 3 + [dict(op='tick', d=1), dict(op='reload', per=per, rules=new)]
            s += [dict(op='req', res=1, b=1)] * 5 + [dict(op='tick', d=max(iv, 1000) * 2 + 1)] + [dict(op='req', res=1, b=1)] * 8
            s += [dict(op='tick', d=1), dict(op='reload', per=per, rules=[new[1], mkrule(1, 3, 1, iv, 0, 1), mkrule(1, 5, 1, iv, 0, 1)])]
            s += [dict(op='req', res=1, b=1)] * 6 + [dict(op='tick', d=max(iv, 1000) * 2 + 1)] + [dict(op='req', res=1, b=2)] * 4
            out.append(s)
    return out, tr


def path_scenarios(c, thorough, tr):
    """every complete schedule of AdmitPath (k = 2, 3) -> gated scenario on the real code"""
    scns = []
    for k, cap in ((2, 150 if not thorough else 10 ** 6), (3, 450 if not thorough else 10 ** 6)):
        cfg = path_cfg(k, 'qps', 'MCTsGen', '{0, 1, 2}', '{0, 1, 2}', invs='', extra='ACTION_CONSTRAINT Emit\n')
        r = c.tlc('AdmitPath_MC', cfg_text=cfg, workers=2, timeout=900, count=False)
        if r.error:
            raise MachineryError('schedule generation failed: %s\n%s' % (r.error, r.out[-1500:]))
        hs = [x for x in r.json_prints() if isinstance(x, dict)]
        n = len(hs)
        if len(hs) > cap:
            hs = c.rng.sample(hs, cap)
        for x in hs:
            tr += 1
            iv = c.rng.choice([0, 0, 2000, 700, 3000, 250, 20000])
            s = [dict(op='new', tr=tr, t=c.rng.choice([1, 777, 1499]), unit=1, nres=1,
                      rules=[mkrule(1, x['T'][0], x['T'][1], iv, 0, 1)])]
            s += [dict(op='req', res=1, b=1)] * x['w0']
            s.append(dict(op='conc', res=1, bs=x['bs'], sched=x['sched'], exp=x['dec']))
            s.append(dict(op='req', res=1, b=1))
            s.append(dict(op='tick', d=geometry(iv)[1]))
            s.append(dict(op='req', res=1, b=2))
            scns.append(s)
        c.log('S2 AdmitPath K=%d: %d complete schedules emitted by TLC, %d replayed' % (k, n, len(hs)))
    return scns, tr


# ------------------------------------------------------------------ S3 / S4
def split_traces(lines):
    out, cur = {}, None
    for l in lines:
        if l.get('op') == 'new':
            cur = l['tr']
            out[cur] = []
        out[cur].append(l)
    return out


def validate_file(c, tp, tag):
    nlines = sum(1 for _ in open(tp))
    mism, consumed, r = c.validate('FlowQps_Trace', tp, nlines)
    if consumed != nlines:
        raise MachineryError('%s: trace validation consumed %d of %d lines (malformed trace?)\n%s' % (tag, consumed, nlines, r.out[-1500:]))
    drift = [l for l in r.out.splitlines() if l.startswith('"DRIFT ')]
    return mism, nlines, r, drift


def run_and_validate(c, drv, scns, tag, count=True):
    sp = os.path.join(c.scratch, tag + '.scn.ndjson')
    tp = os.path.join(c.scratch, tag + '.trace.ndjson')
    write_ndjson(sp, [o for s in scns for o in s])
    cfgs = {s[0].get('cfg', '') for s in scns}
    if len(cfgs) > 1:
        raise MachineryError('scenarios of one driver run must share the statistic configuration: %s' % sorted(cfgs))
    env = vlib.goenv()
    if cfgs and list(cfgs)[0]:
        env['VERIF_STAT_CFG'] = list(cfgs)[0]       # non-default geometry of the per-resource statistic (whole process)
    c.run([drv, sp, tp], timeout=600, env=env)
    mism, nlines, r, drift = validate_file(c, tp, tag)
    if count:
        c.cov['traces_validated_against_impl'] += len(scns)
        c.cov['evaluations'] += nlines
        c.cov['implementation_drift'] = c.cov.get('implementation_drift', 0) + len(drift)
        c.log('S3/S4 %s: %d scenarios, %d events validated in %.0fs, %d mismatching traces, %d drift remarks' % (
            tag, len(scns), nlines, r.wall, len(mism), len(drift)))
        for d in drift[:3]:
            c.log('   drift remark: ' + d[:300])
    if mism:
        lines = open(tp).read().splitlines()
        mism = [(tr, ln, exp + '  OBSERVED: ' + lines[ln - 1][:400]) for tr, ln, exp in mism]
    return mism, tp


def binding_selftest(c, tp):
    """flip one recorded decision (before the first clock move, where every bucket length agrees) in each of the first
    traces of a good trace file: every corrupted trace must be rejected"""
    lines = [json.loads(l) for l in open(tp)]
    out, n, want, order = [], 0, set(), {}
    done = True
    for e in lines:
        if e['op'] == 'new':
            n += 1
            if n > 40:
                break
            order[e['tr']] = n
            done = False
            rules = e['rules']
        elif e['op'] == 'tick':
            done = True
        elif not done and e['op'] == 'req' and (e['b'] > 0 or not e['ok']):
            mine = [i + 1 for i, r in enumerate(rules) if r['res'] == e['res']]
            if e['ok'] and mine:
                e.update(ok=False, bt='flow', rule=mine[0], val=0)
                done = True
                want.add(n)
            elif not e['ok']:
                e = dict(op='req', res=e['res'], b=e['b'], ok=True)
                done = True
                want.add(n)
        out.append(e)
    cp = os.path.join(c.scratch, 'corrupt.ndjson')
    write_ndjson(cp, out)
    mism, _, _, _ = validate_file(c, cp, 'corrupt')
    got = {order[m[0]] for m in mism}
    if got != want or len(want) < 5:
        raise MachineryError('binding self-test failed: corrupted traces %s, rejected %s' % (sorted(want), sorted(got)))
    c.cov['binding_selftest'] = '%d corrupted traces, all rejected' % len(want)
    c.log('binding self-test: %d corrupted traces, all rejected by FlowQps_Trace' % len(want))


def gate_selftest(c, tp):
    """the goroutine gate really interleaves the callers: in some gated sections every caller is parked at the yield point
    "chain.checked" before anyone records, and the window overshoots T as AdmitPath predicts"""
    parked = over = 0
    for tr, lines in split_traces(read_ndjson(tp)).items():
        r = lines[0]['rules'][0]
        w = 0
        for e in lines:
            if e['op'] == 'tick':
                break
            if e['op'] == 'req' and e['ok']:
                w += e['b']
            if e['op'] == 'conc':
                k = len(e['bs'])
                parked += e['points'][:k] == ['chain.checked'] * k
                w += sum(b for b, ok in zip(e['bs'], e['oks']) if ok)
                over += w * r['den'] > r['num']
                break
    if parked == 0 or over == 0:
        raise MachineryError('gate self-test failed: %d sections with all callers parked at chain.checked, %d overshoots' % (parked, over))
    c.cov['gate_selftest'] = '%d gated sections with all callers parked at chain.checked, %d with window > T' % (parked, over)
    c.log('gate self-test: ' + c.cov['gate_selftest'])


def assoc_standalone_rules(scn):
    """does the scenario load (at the start or by a reload) an associated rule whose interval forces a standalone window?"""
    u = scn[0].get('unit', 1) or 1
    return any(r['ref'] not in (0, r['res']) and standalone(r['I'] * u)
               for o in scn if o['op'] in ('new', 'reload') for r in o['rules'])


def classify(c, drv, scns):
    """known-finding keys for confirmed mismatching scenarios: {tr: key}.
    A deviation is the known associated-rule defect iff the recorded behaviour is EXACTLY what the property demands
    once every associated rule with a standalone window is read as counting its own resource."""
    cand = [s for s in scns if assoc_standalone_rules(s)]
    if not cand:
        return {}
    sp = os.path.join(c.scratch, 'classify.scn.ndjson')
    tp = os.path.join(c.scratch, 'classify.trace.ndjson')
    write_ndjson(sp, [o for s in cand for o in s])
    c.run([drv, sp, tp], timeout=600)
    lines = read_ndjson(tp)
    for e in lines:
        if e['op'] in ('new', 'reload'):        # (the trace carries effective intervals in ms)
            for r in e['rules']:
                if r['ref'] not in (0, r['res']) and standalone(r['I']):
                    r['ref'] = 0
    vp = os.path.join(c.scratch, 'classify.variant.ndjson')
    write_ndjson(vp, lines)
    mism, _, _, _ = validate_file(c, vp, 'classify')
    bad = {m[0] for m in mism}
    return {s[0]['tr']: KEY_ASSOC for s in cand if s[0]['tr'] not in bad}


def handle_mismatches(c, drv, scns, mism, tag):
    if not mism:
        return
    by_tr = {s[0]['tr']: s for s in scns}
    cands = sorted(mism, key=lambda m: len(by_tr[m[0]]))       # shortest scenarios first
    # every mismatching scenario with the suspicious rule shape is tested against the known defect's semantics
    keys = classify(c, drv, [by_tr[m[0]] for m in cands])
    explained = [m for m in cands if m[0] in keys]
    other = [m for m in cands if m[0] not in keys]
    c.log('%s: %d mismatching traces are exactly the associated-rule/standalone-window deviation, %d are not' % (tag, len(explained), len(other)))
    sel = explained[:2] + other[:6]
    sel_scns = [by_tr[m[0]] for m in sel]
    seen = []
    for i in range(2):      # confirm twice from the scenario in fresh processes
        m2, _ = run_and_validate(c, drv, sel_scns, 'confirm-%s-%d' % (tag, i), count=False)
        seen.append({m[0] for m in m2})
    for tr, line, exp in sel:
        s = by_tr[tr]
        rp = c.save_replay('%s-tr%d.ndjson' % (tag, tr), s)
        if not (tr in seen[0] and tr in seen[1]):
            c.inconclusive.append('mismatch of %s trace %d did not reproduce' % (tag, tr))
            continue
        key = keys.get(tr)
        what = 'decision differs from "admitted iff window + batch <= T" at line %d of trace %d; expected %s' % (line, tr, exp[:500])
        if key and c.is_known(key):
            c.known(key, c.kf[key]['description'])
        else:
            c.violation(('[%s] ' % key if key else '') + what, rp)


def nontrivial(trace):
    """a recorded trace exercises the property if it contains a rejection and an admission"""
    oks = [e['ok'] for e in trace if e['op'] == 'req'] + [x for e in trace if e['op'] == 'conc' for x in e['oks']]
    return (True in oks) and (False in oks)


def count_nontrivial(c, tp, seen):
    for tr, lines in split_traces(read_ndjson(tp)).items():
        if nontrivial(lines):
            seen.add(json.dumps([{k: v for k, v in e.items() if k != 'tr'} for e in lines], sort_keys=True))


def check(c, tier, replay):
    if os.environ.get('VERIF_KNOWN_FINDINGS'):      # private copy of known_findings.json (to try the KNOWN-FINDING path)
        data = json.load(open(os.environ['VERIF_KNOWN_FINDINGS']))
        c.kf = {e['key']: e for e in data.get('findings', []) if e.get('property') == c.pid and e.get('status', 'open') == 'open'}
    drv = c.build('c02')
    if replay:
        s = read_ndjson(replay)
        mism, _ = run_and_validate(c, drv, [s], 'replay')
        if mism:
            keys = classify(c, drv, [s])
            key = keys.get(s[0]['tr'])
            if key and c.is_known(key):
                c.known(key, c.kf[key]['description'])
            else:
                c.violation('replayed scenario: decision differs from the property: %s' % (mism[0][2][:500]), replay)
        c.cov['states'] = c.cov['transitions'] = 1
        c.sample(s[:8])
        return
    thorough = tier == 'thorough'
    model_check(c, thorough)
    tr = 0
    tl, cover, tr = tlc_scenarios(c, thorough, tr)
    rs, tr = random_scenarios(c, 500 if not thorough else 6000, tr)
    rd, tr = reload_directed(tr)
    rs = rd + rs
    # the same kind of histories under non-default geometries of the per-resource statistic (sample count, interval of the
    # default view; the spec leaves the bucket length open, the default interval comes from the configuration)
    alt = []
    for cfg in ALT_CFGS:
        g, tr = random_scenarios(c, 120 if not thorough else 1500, tr)
        for s in g:
            s[0]['cfg'] = cfg
            for o in s:         # (own-resource rules only: the classification of the known associated-rule finding assumes the default geometry)
                for r in o.get('rules', []):
                    r['ref'] = 0
        alt.append(('altcfg-' + cfg.replace(',', '-'), g))
    ps, tr = path_scenarios(c, thorough, tr)
    seen = set()
    for tag, group in [('tlc', tl), ('random', rs), ('gated', ps)] + alt:
        for i in range(0, len(group), 3000):
            part = group[i:i + 3000]
            mism, tp = run_and_validate(c, drv, part, '%s%d' % (tag, i))
            if tag == 'random' and i == 0:
                bad = {m[0] for m in mism}
                good = os.path.join(c.scratch, 'good.ndjson')
                write_ndjson(good, [e for t, ls in split_traces(read_ndjson(tp)).items() if t not in bad for e in ls])
                binding_selftest(c, good)
            if tag == 'gated' and i == 0:
                gate_selftest(c, tp)
            count_nontrivial(c, tp, seen)
            c.cov['conformance_mismatches'] += len(mism)
            handle_mismatches(c, drv, part, mism, tag)
    c.cov['distinct_nontrivial'] = len(seen)
    c.cov['rule'] = ('scenarios = one per transition of bounded FlowQps instances (%d) + TLC random simulation + seeded random '
                     'histories over realistic intervals/thresholds/batches + every complete AdmitPath schedule TLC emits (gated '
                     'goroutines); non-trivial = distinct recorded trace that contains at least one rejection and one admission; '
                     'implementation_drift = remarks where the real outcome differs from the implementation-shaped prediction '
                     '(GeometryFor bucket length / AdmitPath replay) without breaking the property' % cover)
    c.sample(tl[len(tl) // 2][:8])
    c.sample(rs[0][:8])
    c.sample(ps[-1])
    c.assumptions += ['rules are loaded before any traffic of the scenario; fresh resources per scenario',
                      'thresholds are rationals with small denominators: the float compare of the code is exact for them',
                      'the bucket length of a statistic window is not fixed by the property: any divisor of the interval that '
                      'explains the whole trace is accepted',
                      'the clock does not move while gated callers are inside the admission path',
                      'TLC model checking is exhaustive only for the bounded instances listed in tlc_runs']


_check_without_apalache = check


def check(c, tier, replay):
    _check_without_apalache(c, tier, replay)
    if tier == 'thorough' and not replay:
        import apalache
        apalache.run(c)       # inductive invariant for an unbounded threshold / batch (extra evidence, see lib/apalache.py)


main('C02', check)
